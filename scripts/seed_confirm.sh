#!/bin/bash
# usage: seed_confirm.sh <PID> <k> : confirm agent mutant /tmp/mut/<PID>/out/m<k>.{diff,md} + m<k>_demo_test.go in a scratch worktree
# and store it under /verif/seeded/<PID>-m<k>/ . The scratch worktree is /tmp/mut/port (outside /repo and /verif).
PID=$1; K=$2; BASE=${SRCBASE:-/tmp/mut}; TAG=${SEEDTAG:-m}; SRC=$BASE/$PID/out; W=/tmp/mut/port
export GOFLAGS=-mod=mod GOPROXY=off GOSUMDB=off GOTOOLCHAIN=local
# a build cache of its own: one worktree must never be used by two of these scripts at once (a build that races with
# a checkout stores an object under the wrong content hash and the poisoned entry outlives the race)
export GOCACHE=${MUT_GOCACHE:-/var/tmp/gocache-mut}
exec 9>/var/tmp/mut-worktree.lock; flock 9
cd $W && git checkout -q --detach main && git checkout -q -- . && git clean -fdq
D=$SRC/m$K.diff; [ -f $SRC/m$K.ported.diff ] && D=$SRC/m$K.ported.diff
if ! git apply $D 2>/dev/null; then git apply -3 $D >/dev/null 2>&1 || { echo "$PID m$K: patch does not apply"; git checkout -q HEAD -- . ; git reset -q; exit 1; }; git reset -q; fi
git diff > /var/tmp/seed.$PID.$K.diff
go build ./... || { echo "$PID m$K: does not build"; git checkout -q -- .; exit 1; }
if ! go test -vet=off -count=1 . ./context > /var/tmp/seed.suite.log 2>&1; then echo "$PID m$K: existing suite FAILS with mutant"; git checkout -q -- .; exit 1; fi
DEMO=$SRC/m${K}_demo_test.go
PKGDIR=.; grep -q "^package context" $DEMO && PKGDIR=context
cp $DEMO $W/$PKGDIR/zz_demo_test.go
TESTS=$(grep -o "^func Test[A-Za-z0-9_]*" $DEMO | sed 's/func //' | paste -sd'|')
go test -vet=off -count=1 -run "^($TESTS)\$" ./$PKGDIR > /var/tmp/seed.with.log 2>&1; WITH=$?
git checkout -q -- . 
go test -vet=off -count=1 -run "^($TESTS)\$" ./$PKGDIR > /var/tmp/seed.without.log 2>&1; WITHOUT=$?
rm -f $W/$PKGDIR/zz_demo_test.go
if [ $WITH -eq 0 ] || [ $WITHOUT -ne 0 ]; then echo "$PID m$K: demo with=$WITH without=$WITHOUT (need with!=0, without=0)"; exit 1; fi
O=/verif/seeded/$PID-$TAG$K; mkdir -p $O
cp /var/tmp/seed.$PID.$K.diff $O/patch.diff; cp $DEMO $O/demo_test.go; cp $SRC/m$K.md $O/notes.md
python3 - "$PID" "$TAG$K" "$TESTS" "$PKGDIR" <<'PY'
import json,sys,subprocess
pid,k,tests,pkg=sys.argv[1:5]
head=subprocess.run(["git","-C","/repo","rev-parse","--short","HEAD"],capture_output=True,text=True).stdout.strip()
md=open('/verif/seeded/%s-%s/notes.md'%(pid,k)).read()
meta={"property":pid,"source":"independent sub-agent given only the property text and a scratch worktree","applies_to_repo_commit":head,
 "needs_to_manifest":"see notes.md","confirmed":{"worktree":"/tmp/mut/port (scratch, removed afterwards)",
   "existing_suite_with_patch":"go test -vet=off -count=1 . ./context : pass","demo_with_patch":"go test -run '^(%s)$' ./%s : FAIL"%(tests,pkg),"demo_without_patch":"same command : pass"},
 "demo_package_dir":pkg}
json.dump(meta,open('/verif/seeded/%s-%s/meta.json'%(pid,k),'w'),indent=1)
PY
echo "$PID m$K: confirmed"
