#!/bin/sh
# TLC with the BigNat/Chars module overrides next to the CommunityModules overrides.
# usage: scripts/tlc.sh <Module> [tlc args]   -- runs <Module>.tla/.cfg in a scratch copy of spec/
# env: VERIF_JAVA_OPTS extra JVM options; VERIF_SCRATCH scratch root (default /var/tmp)
V=${VERIF_HOME:-/verif}
J=/opt/veriftools/tla
M=$1; shift
S=$(mktemp -d "${VERIF_SCRATCH:-/var/tmp}/vtlc.XXXXXX") || exit 2
trap 'rm -rf "$S"' EXIT INT TERM
cp "$V"/spec/*.tla "$V"/spec/mc/* "$V"/spec/trace/* "$S"/ 2>/dev/null
cd "$S" || exit 2
java -Xss512m -XX:+UseParallelGC ${VERIF_JAVA_OPTS:-} \
  -Dtlc2.overrides.TLCOverrides=tlc2.overrides.TLCOverrides:VerifOverrides \
  -cp "$V"/build/classes:$J/tla2tools.jar:$J/CommunityModules-deps.jar tlc2.TLC \
  -metadir "$S/meta" -config "$M.cfg" "$@" "$M.tla"
