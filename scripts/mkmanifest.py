#!/usr/bin/env python3
"""Regenerate MANIFEST.json from the list of built checks (keeps it valid at all times)."""
import json,subprocess
props=[json.loads(l) for l in open('/verif/properties.jsonl')]
ids=[p['id'] for p in props]
claimed={
 'C01':("exploration at full scale + exhaustive bounded model: MC_Round proves (by TLC, exhaustively, for every exact value N/D*10^e with N<=NMax, D in {1,3,7,9,11,64}, e in -4..4, p<=3, 6 modes, 2 signs, exponent range shrunk to [-2,2]) that the operational rounding function satisfies the declarative statement of C01; every Add/Sub/Mul/Quo/Set/SetPrec/Neg/Abs call executed on the real library by the adversarial drivers is then validated by TLC against that operational function (and Quo also against the declarative predicate).","4 C01"),
 'C02':("same machinery as C01; accuracy is compared as its own class (and declaratively for Quo): sign(stored - exact), incl. overflow/underflow.","4 C02"),
 'C03':("FMA = exact x*y+u rounded once, validated on recorded executions against the TLA+ operator OpFMA (one rounding of the exact sum; IEEE special values and zero-sum sign rule); the trace spec classifies each case as same-as / differs-from Mul-then-Add so the characterisation in the statement is exercised both ways.","4 C03"),
 'C04':("complete enumeration of operation x operand classes x modes executed on the real library and validated against the specification's IEEE dispatch; the outcome (ok / ErrNaN / other panic) of every event of every driver is an observed field.","4 C04"),
 'C05':("Sqrt validated against the integer-square-root specification and, independently, the squaring-only declarative predicate SqrtOK evaluated by TLC on the observed root.","4 C05"),
 'C06':("dec.mul / dec.sqr / dec.div are driven through the verif hooks at all sizes and 8 threshold assignments with dirty and poisoned buffers; TLC validates every call against the natural-number identities (exact arithmetic) and classifies it by code path; Mul/Quo through the API on the same sizes are validated against the rounding specification. At design level DecAlgo transcribes schoolbook/Karatsuba multiplication, squaring, Knuth D and recursive division statement by statement and TLC checks them exhaustively for every operand of bounded length in small bases (MC_Algo, MC_AlgoMul; the models of defects D1 and D25 must fail).","4 C06 and 8.1"),
 'C07':("every kernel call of a structured enumeration runs the build's implementation (assembly on amd64) and the portable Go one; TLC checks both against the mathematical post-condition over the pre-state (KernelPost/ScalarPost), hence against each other; whole-library programs run under three build configurations and the event logs must be identical. MC_Kernels: the word-vector primitives of the specification (the logic of the portable kernels, used by the transcribed algorithms of DecAlgo) satisfy the same post-conditions for every vector pair of bounded length in bases 10 and 100.","4 C07 and 8.1"),
 'C08':("the state invariant Canonical is evaluated by TLC on every register named by every event of long recorded histories.","4 C08"),
 'C09':("precision/mode stickiness and operand immutability are evaluated by TLC on every event: receiver attributes against the documented value, operands against the model state, unnamed registers by digest.","4 C09"),
 'C10':("refinement of a buffer-free specification: every operation instance is executed under all aliasing partitions and receiver histories; all variants are validated against the specification, and variants of one instance are compared with each other by the trace specification.","4 C10"),
 'C11':("Text(-1)/MarshalText/JSON output is validated against the layout specification (all MinPrec digits, none invented) and the string is parsed back by the real code into a receiver of sufficient precision; TLC checks the re-read value and sign against x.","4 C11"),
 'C12':("the literal grammar is a TLA+ recogniser over characters; every Parse-family call on structured, mutated and random strings is validated against it (accept/reject, detected base, value: exact-then-rounded for decimal literals, exact-or-1ulp with a binary exponent), and math/big's Float.Parse is validated on the same strings as a second implementation of the same recogniser; every string of up to 3 characters over the grammar's alphabet is run through the real parser (small-scope exhaustive), and MC_Parse proves the recogniser equal to the documented EBNF (written declaratively) on every string of up to 5 (6) characters.","4 C12 and 8.1"),
 'C13':("Text/Append/Format output is compared by TLC with the specification's strconv/fmt layout applied to the correctly rounded digits (rounding position at/above the leading digit included); strconv.FormatFloat and fmt.Sprintf on the float64 of the same value are validated against the same specification as a second implementation.","4 C13"),
 'C14':("Int/Int64/Uint64/Rat/IsInt/MinPrec and SetInt/SetInt64/SetUint64/SetRat/NewDecimal of recorded executions are validated against exact truncation / saturation / single rounding in the specification.","4 C14"),
 'C15':("SetFloat64/SetFloat (exact when representable, else within 1 / 64 ulp) and Float64/Float32 (declarative nearest-even predicate NearestOK by cross-multiplication, accuracy = sign(returned - x)) validated on adversarial bit patterns, midpoints and double-rounding triggers constructed from the specification side.","4 C15"),
 'C17':("GobEncode is validated against the specification's decoder, GobDecode against WellFormedGob/DecodeGob on valid, corrupted, truncated and hand-made payloads; decoded receivers are used afterwards.","4 C17"),
 'C18':("DecPool.tla models the scratch pool protocol and TLC checks every interleaving of 2-3 goroutines' get/use/put micro-steps (and that the early-put defect is caught); goroutine executions of the real code are validated event by event against the sequential specification, the logged pool events against DecPool's Get/Put, scratch buffers are poisoned on get and put, and a -race pure-Go build runs the same programs. The pool protocol without bounds (DecPoolAbs) has its safety invariant proved inductive by TLAPS for any number of goroutines and buffers; MC_Pool checks that DecPool refines it.","4 C18 and 8.1"),
 'C19':("the Context latch is a hidden variable of the trace specification inferred by TLC from recorded sessions; results are validated against apply-then-operate semantics with the context's precision and mode.","4 C19"),
 'C16':("Cmp/Sign/Signbit/IsZero/IsInf of recorded executions are compared by TLC with the sign of the exact difference computed by the specification, on adversarial pairs/triples in all ordered pairs.","4 C16"),
 'C20':("SetBitsExp/BitsExp/MantExp/SetMantExp validated against TLA+ operators with exact (BigInt) exponent arithmetic over all int64 exponents.","4 C20"),
}
import os
extra=os.environ.get('VERIF_EXTRA_CLAIMED')
word32={"C01","C02","C03","C04","C05","C09","C10","C11","C12","C13","C14","C15","C16","C19"}
def technique(pid):
    t="explicit TLA+ specification; TLC bounded model checking of spec vs declarative property; TLC trace validation of executions recorded from the real code (adopt-and-continue), mismatches reproduced before being reported"
    if pid in word32:
        t+="; the same programs executed by a GOARCH=386 build (32-bit words) must give the same abstract event log"
    if pid=="C18":
        t+="; TLAPS proof of the unbounded pool invariant; Go race detector on the same programs"
    if pid=="C07":
        t+="; differential execution of assembly and portable Go kernels and of three build configurations"
    return t
def chk(pid):
    text,ref=claimed[pid]
    return {"property_id":pid,"quick_cmd":"bin/vcheck %s --tier quick"%pid,"thorough_cmd":"bin/vcheck %s --tier thorough"%pid,
      "evidence_file":"/verif/evidence/%s.json"%pid,"replay_cmd_template":"bin/vcheck replay {path}","engine":"vcheck",
      "level_claimed":{"category":"model_checking","text":text,"design_ref":"DESIGN.md section "+ref},
      "level_note":"trusted: TLC, the BigInteger module overrides of BigNat (checked against their pure TLA+ definitions by MC_BigNat), the observation function (public accessors only), the executor, the Go toolchain. Bounded: operand sizes, precisions < 2^31, exponent gaps, number of events per run; TLC's exhaustiveness is over the bounded models, the real code is covered on the explored executions.",
      "technique":technique(pid)}
hooks=subprocess.run("git -C /repo log --format=%h --grep='^verif hooks' ",shell=True,capture_output=True,text=True).stdout.split()
m={"version":1,"setup_cmd":"sh scripts/setup.sh",
 "hooks":{"guard":"verif","enable":"go build -tags verif (vcheck builds harness/cmd/vexec against /repo with -tags verif)","baseline_off_cmd":"cd /repo && go test -vet=off -count=1 ./...","source_commits":hooks,"add_only":True},
 "engines":[{"name":"vcheck","path":"bin/vcheck","serves_properties":sorted(claimed),"kind_free_text":"Go orchestrator: TLC bounded models (E), program generators, executor built from /repo (-tags verif), TLC trace validation (V), reproduction of mismatches, known-findings matching, evidence"}],
 "checks":[chk(p) for p in sorted(claimed)],
 "notes":"See DESIGN.md. known_findings.json lists repaired defects (fix: commits in /repo) and recorded findings; replays/ receives one replay file per reported violation.",
 "not_applicable":[{"property_id":p,"reason":"check not built yet (in progress; see DESIGN.md section 4 for the design)"} for p in ids if p not in claimed]}
json.dump(m,open('/verif/MANIFEST.json','w'),indent=1)
print(len(m['checks']),'checks')
