#!/usr/bin/env python3
"""Print a compact view of replay files (triage helper)."""
import json,sys
def d(o):
    return ('-' if o['neg'] else '+')+o['form'][:3]+(':'+','.join(reversed(o['words']))+'e%d'%o['exp'] if o['form']=='finite' else '')+' p%d m%d a%d'%(o['prec'],o['mode'],o['acc'])
for f in sys.argv[1:]:
    r=json.load(open(f)); ev=r['observed_event']; st=r['program']['steps']
    if isinstance(ev,str): print(f, 'event truncated'); continue
    print(f.split('/')[-1], r['property'], r['kind'], {k:v for k,v in ev.items() if k not in ('post','dg','ret','out','msg')}, ev['out'], ev.get('msg',''), 'ret=',ev.get('ret'))
    last={}
    for s in st[:-1]:
        if 'z' in s: last.setdefault(s['z'],[]).append({k:v for k,v in s.items() if k!='z'})
    for k in ('x','y','u','z'):
        if k in ev and ev[k]!='nil': print('    before',k,ev[k],[json.dumps(x)[:200] for x in last.get(ev[k],[])[-3:]])
    for k,o in ev['post'].items(): print('    post',k,d(o)[:300])
