#!/bin/sh
# usage: scripts/trymutant.sh <patch.diff> <ID> [<ID>...] : apply the patch to /repo, run the quick checks, undo.
# With MUT_REPO=<scratch worktree> the patch is applied there instead and the checks run with VERIF_REPO set
# (used while a long background run is reading /repo).
P=$1; shift
export GOCACHE=${MUT_GOCACHE:-/var/tmp/gocache-mut}   # see seed_confirm.sh
exec 9>/var/tmp/mut-worktree.lock; flock 9
R=${MUT_REPO:-/repo}
[ "$R" != /repo ] && { git -C $R checkout -q --detach main && git -C $R checkout -q -- . ; export VERIF_REPO=$R; }
git -C $R diff --quiet || { echo "/repo is dirty"; exit 2; }
restore() { git -C $R checkout HEAD -- . ; git -C $R reset -q; }
if ! git -C $R apply "$P" 2>/dev/null; then
  if ! git -C $R apply -3 "$P" >/dev/null 2>&1; then echo "patch does not apply"; restore; exit 2; fi
  git -C $R reset -q
fi
trap restore EXIT INT TERM
for id in "$@"; do
  /verif/bin/vcheck $id --tier quick > ${MUT_LOG:-/var/tmp}/trymut.$id.log 2>&1
  rc=$?
  echo "== $id exit=$rc  $(grep -c '^VIOLATION' ${MUT_LOG:-/var/tmp}/trymut.$id.log) VIOLATION lines; $(grep '^VIOLATION' ${MUT_LOG:-/var/tmp}/trymut.$id.log | head -1 | cut -c1-120)"
  grep "^vcheck:" ${MUT_LOG:-/var/tmp}/trymut.$id.log | head -3 | cut -c1-300
done
