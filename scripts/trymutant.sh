#!/bin/sh
# usage: scripts/trymutant.sh <patch.diff> <ID> [<ID>...] : apply the patch to /repo, run the quick checks, undo.
P=$1; shift
git -C /repo diff --quiet || { echo "/repo is dirty"; exit 2; }
restore() { git -C /repo checkout HEAD -- . ; git -C /repo reset -q; }
if ! git -C /repo apply "$P" 2>/dev/null; then
  if ! git -C /repo apply -3 "$P" >/dev/null 2>&1; then echo "patch does not apply"; restore; exit 2; fi
  git -C /repo reset -q
fi
trap restore EXIT INT TERM
for id in "$@"; do
  /verif/bin/vcheck $id --tier quick > /var/tmp/trymut.$id.log 2>&1
  rc=$?
  echo "== $id exit=$rc  $(grep -c '^VIOLATION' /var/tmp/trymut.$id.log) VIOLATION lines; $(grep '^VIOLATION' /var/tmp/trymut.$id.log | head -1 | cut -c1-120)"
  grep "^vcheck:" /var/tmp/trymut.$id.log | head -3 | cut -c1-300
done
