#!/bin/sh
# Build the framework from files on disk only (offline): Java overrides, orchestrator.
set -e
V=${VERIF_HOME:-/verif}
cd "$V"
export GOFLAGS=-mod=mod GOPROXY=off GOSUMDB=off GOTOOLCHAIN=local
J=/opt/veriftools/tla
mkdir -p build/classes bin evidence replays
javac -d build/classes -cp $J/tla2tools.jar:$J/CommunityModules-deps.jar java/src/*.java
(cd harness && go build -o ../bin/vcheck ./cmd/vcheck)
echo "setup ok"
