#!/bin/bash
# Run every seeded mutant (/verif/seeded/*/patch.diff) against the quick check of its property: apply to /repo,
# run, undo. Records the outcome in meta.json ("detected_by"). usage: scripts/seeded.sh [dir ...]
cd /verif
DIRS="$@"; [ -z "$DIRS" ] && DIRS=$(ls -d seeded/*/)
for d in $DIRS; do
  d=${d%/}; pid=$(python3 -c "import json;print(json.load(open('$d/meta.json'))['property'])")
  extra=$(python3 -c "import json;print(' '.join(json.load(open('$d/meta.json')).get('also_run',[])))")
  out=$(scripts/trymutant.sh /verif/$d/patch.diff $pid $extra 2>&1)
  det=$(echo "$out" | grep "^== " | awk '$3=="exit=1"{print $2}' | paste -sd, )
  echo "$(basename $d): detected_by=[${det}]  $(echo "$out" | grep -c 'patch does not apply' | sed 's/^0$//;s/^1$/PATCH-DOES-NOT-APPLY/')"
  python3 - "$d" "$det" <<'PY'
import json,sys
d,det=sys.argv[1:3]
m=json.load(open(d+'/meta.json')); m['detected_by']=[x for x in det.split(',') if x]
m['ran']="scripts/trymutant.sh %s/patch.diff %s (git -C /repo apply; bin/vcheck <ID> --tier quick; git -C /repo checkout)"%(d,m['property'])
json.dump(m,open(d+'/meta.json','w'),indent=1)
PY
done
git -C /repo status --short | head -3
