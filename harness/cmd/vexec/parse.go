package main

import (
	"encoding/json"
	"fmt"
	"math/big"

	"github.com/db47h/decimal"
)

// parse runs the text-input operations. When the step carries "big": true, math/big's
// Float.Parse is run on the same string as a second implementation of the same grammar.
func (m *machine) parse(op string, s M) any {
	text := str(s, "s")
	r := M{}
	switch op {
	case "Parse":
		z := m.reg(s, "z")
		d, b, err := z.Parse(text, int(num(s, "base")))
		r["ok"] = err == nil
		r["b"] = b
		r["nilres"] = d == nil
		r["same"] = d == z
		if err != nil {
			r["emsg"] = err.Error()
		}
	case "SetString":
		z := m.reg(s, "z")
		d, ok := z.SetString(text)
		r["ok"] = ok
		r["nilres"] = d == nil
		r["same"] = d == z
	case "UnmarshalText":
		err := m.reg(s, "z").UnmarshalText([]byte(text))
		r["ok"] = err == nil
	case "UnmarshalJSON":
		q, _ := json.Marshal(text) // the literal as a JSON string
		err := json.Unmarshal(q, m.reg(s, "z"))
		r["ok"] = err == nil
	case "ParseDecimal":
		m.reg(s, "z")
		d, b, err := decimal.ParseDecimal(text, int(num(s, "base")), uint(unum(s, "p")), decimal.RoundingMode(num(s, "m")))
		r["ok"] = err == nil
		r["b"] = b
		r["nilres"] = d == nil
		if d != nil {
			m.regs[str(s, "z")] = d
		} else {
			m.regs[str(s, "z")] = new(decimal.Decimal)
		}
	case "Scan":
		z := m.reg(s, "z")
		n, err := fmt.Sscan(text, z)
		r["ok"] = err == nil && n == 1
	}
	if b, _ := s["big"].(bool); b {
		_, bb, err := new(big.Float).SetPrec(64).Parse(text, int(num(s, "base")))
		r["bigok"] = err == nil
		r["bigb"] = bb
	}
	return r
}
