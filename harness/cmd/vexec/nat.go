package main

import (
	"strconv"

	"github.com/db47h/decimal"
)

func wordStrs(w []decimal.Word) []string {
	s := make([]string, len(w))
	for i, v := range w {
		s[i] = strconv.FormatUint(uint64(v), 10)
	}
	return s
}

// stale returns a buffer of n words filled with junk (a reused, dirty destination).
func stale(n int) []decimal.Word {
	if n <= 0 {
		return nil
	}
	z := make([]decimal.Word, n)
	for i := range z {
		z[i] = decimal.Word(1234567890123456789 + uint64(i)*7919)
	}
	return z[:0]
}

// roomy returns a copy of w in an array with room for n words (and a little more), dirty beyond len(w).
func roomy(w []decimal.Word, n int) []decimal.Word {
	if n < len(w) {
		n = len(w)
	}
	b := make([]decimal.Word, n+4)
	for i := range b {
		b[i] = decimal.Word(987654321987654321 + uint64(i)*104729)
	}
	copy(b, w)
	return b[:len(w)]
}

// execNat runs the operations below the public API (through the verif hooks):
// natural-number algorithms "N.*" and word kernels "K.*".
func (m *machine) execNat(op string, s M) (any, bool) {
	switch {
	case op == "N.mul":
		x, y := wordsOf(s, "x"), wordsOf(s, "y")
		z := stale(int(num(s, "zlen")))
		switch alias, _ := s["zalias"].(string); alias { // the destination is an operand (z.Mul(z, y)): same array, spare capacity
		case "x":
			x = roomy(x, len(x)+len(y))
			z = x
		case "y":
			y = roomy(y, len(x)+len(y))
			z = y
		}
		z = decimal.VerifMul(z, x, y)
		return M{"z": wordStrs(z), "thr": curThr}, true
	case op == "N.sqr":
		x := wordsOf(s, "x")
		z := stale(int(num(s, "zlen")))
		if alias, _ := s["zalias"].(string); alias == "x" {
			x = roomy(x, 2*len(x))
			z = x
		}
		z = decimal.VerifSqr(z, x)
		return M{"z": wordStrs(z), "thr": curThr}, true
	case op == "N.div":
		u, v := wordsOf(s, "u"), wordsOf(s, "v")
		z, z2 := stale(int(num(s, "zlen"))), stale(int(num(s, "zlen")))
		switch alias, _ := s["zalias"].(string); alias { // the quotient's storage is the divisor's or the dividend's (z.Quo(x, z), z.Quo(z, y))
		case "v":
			v = roomy(v, len(u)+2)
			z = v
		case "u":
			u = roomy(u, len(u)+2)
			z = u
		case "u2": // the remainder's storage is the dividend's
			u = roomy(u, len(u)+2)
			z2 = u
		}
		q, r := decimal.VerifDiv(z, z2, u, v)
		return M{"q": wordStrs(q), "r": wordStrs(r), "thr": curThr, "rec": decimal.VerifDivRecursiveThreshold}, true
	case op == "K.tables":
		var rows []M
		for _, r := range decimal.VerifMagic() {
			rows = append(rows, M{"d": strconv.FormatUint(r.D, 10), "m": strconv.FormatUint(r.M, 10), "pre": int(r.Pre), "post": int(r.Post)})
		}
		return M{"rows": rows}, true
	case op == "K":
		return m.execKernel(str(s, "k"), s), true
	}
	return nil, false
}

// execKernel runs one word kernel in both implementations (index 0: the build's, index 1: portable Go)
// on a private copy of the backing array described by the step:
//
//	mem: the backing array; zo/xo/yo: offsets of z, x, y in it; n: length; scalars y, r, s.
//
// Both results (the whole backing array afterwards and the returned word) are logged.
func (m *machine) execKernel(name string, s M) any {
	mem := wordsOf(s, "mem")
	n := int(num(s, "n"))
	zo, xo := int(num(s, "zo")), int(num(s, "xo"))
	res := M{}
	for impl := 0; impl < 2; impl++ {
		a := append([]decimal.Word(nil), mem...)
		// the sources may be LONGER than the destination (xn, yn > n): the kernels take their length from z
		// (decKaratsubaAdd/Sub call add10VV/add10VW/sub10VW with the rest of the buffer as source)
		xn, yn := n, n
		if v, ok := s["xn"]; ok && v != nil {
			xn = int(num(s, "xn"))
		}
		if v, ok := s["yn"]; ok && v != nil {
			yn = int(num(s, "yn"))
		}
		z, x := a[zo:zo+n], a[xo:xo+xn]
		var c decimal.Word
		var c2 decimal.Word
		two := false
		switch {
		case decimal.VerifVV[name][0] != nil:
			yo := int(num(s, "yo"))
			c = decimal.VerifVV[name][impl](z, x, a[yo:yo+yn])
		case decimal.VerifVW[name][0] != nil:
			c = decimal.VerifVW[name][impl](z, x, decimal.Word(unum(s, "y")))
		case decimal.VerifVU[name][0] != nil:
			c = decimal.VerifVU[name][impl](z, x, uint(unum(s, "s")))
		case decimal.VerifVWW[name][0] != nil:
			c = decimal.VerifVWW[name][impl](z, x, decimal.Word(unum(s, "y")), decimal.Word(unum(s, "r")))
		case decimal.VerifWW[name][0] != nil:
			c, c2 = decimal.VerifWW[name][impl](decimal.Word(unum(s, "y")), decimal.Word(unum(s, "r")))
			two = true
		case decimal.VerifWWW[name][0] != nil:
			c, c2 = decimal.VerifWWW[name][impl](decimal.Word(unum(s, "y")), decimal.Word(unum(s, "r")), decimal.Word(unum(s, "w")))
			two = true
		default:
			panic(herr("unknown kernel " + name))
		}
		k := "asm"
		if impl == 1 {
			k = "go"
		}
		r := M{"mem": wordStrs(a), "c": strconv.FormatUint(uint64(c), 10)}
		if two {
			r["c2"] = strconv.FormatUint(uint64(c2), 10)
		}
		res[k] = r
	}
	return res
}
