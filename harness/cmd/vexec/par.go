package main

import (
	"bytes"
	"encoding/json"
	"os"
	"runtime"
	"strconv"
	"sync"
	"sync/atomic"
	"time"

	"github.com/db47h/decimal"

	"verif/harness/obs"
)

// goid returns the current goroutine's id (harness-only trick: parsed from the stack header).
func goid() uint64 {
	var buf [64]byte
	b := buf[:runtime.Stack(buf[:], false)]
	b = bytes.TrimPrefix(b, []byte("goroutine "))
	if i := bytes.IndexByte(b, ' '); i >= 0 {
		b = b[:i]
	}
	n, _ := strconv.ParseUint(string(b), 10, 64)
	return n
}

// runPar executes a "Par" step: several goroutines run their own step lists concurrently. They may
// read any register but write only to their own receivers (the generator guarantees it). Each
// goroutine logs its events with the observation of the registers the step names taken right after the
// step; pool Get/Put events are logged through the verif hook with one global sequence number taken
// under the hook's mutex (never wall-clock time) and the goroutine that performed them.
func (m *machine) runPar(s M, enc *json.Encoder) {
	gs, _ := s["g"].([]any)
	iters := 1
	if v, ok := s["iters"]; ok {
		iters = int(v.(float64))
	}
	if v, ok := s["gomaxprocs"]; ok {
		defer runtime.GOMAXPROCS(runtime.GOMAXPROCS(int(v.(float64))))
	}
	gcEvery := 0
	if v, ok := s["gc"]; ok {
		gcEvery = int(v.(float64))
	}
	type poolEv struct {
		Seq int64  `json:"seq"`
		G   int    `json:"g"`
		Put bool   `json:"put"`
		Buf string `json:"buf"`
	}
	var (
		pmu  sync.Mutex
		seq  int64
		pevs []poolEv
		idOf sync.Map // goroutine id -> worker index
	)
	hook := func(e decimal.VerifPoolEvent) {
		g := -1
		if v, ok := idOf.Load(goid()); ok {
			g = v.(int)
		}
		pmu.Lock()
		seq++
		pevs = append(pevs, poolEv{Seq: seq, G: g, Put: e.Put, Buf: strconv.FormatUint(uint64(e.Buf), 16)})
		pmu.Unlock()
	}
	if os.Getenv("VERIF_NOPOOLLOG") != "" {
		hook = nil // the -race build: the race detector is the oracle there, the pool log only slows it down
	}
	decimal.VerifPoolEnable(true, hook)
	defer decimal.VerifPoolEnable(true, nil)

	// registers that no goroutine writes (shared operands): their raw observation (mantissa words included) is taken
	// before the goroutines start and after they have all finished; "no operand is modified" is then checked by the
	// specification on these two digests, whether or not the race detector happens to see the write
	written := map[string]bool{}
	for gi := range gs {
		steps, _ := gs[gi].([]any)
		for _, st := range steps {
			if z, ok := st.(map[string]any)["z"].(string); ok {
				written[z] = true
			}
		}
	}
	before := M{}
	for _, n := range m.names {
		if !written[n] {
			before[n] = obs.Digest(obs.Of(m.regs[n]))
		}
	}

	evs := make([][]M, len(gs))
	var wg sync.WaitGroup
	start := make(chan struct{})
	for gi := range gs {
		steps, _ := gs[gi].([]any)
		wg.Add(1)
		go func(gi int, steps []any) {
			defer wg.Done()
			idOf.Store(goid(), gi)
			nsteps := 0
			<-start
			for it := 0; it < iters; it++ {
				for _, st := range steps {
					step := st.(map[string]any)
					ev := M{}
					for k, v := range step {
						ev[k] = v
					}
					ev["par"] = true
					ev["g"] = gi
					m.stepPar(step, ev)
					evs[gi] = append(evs[gi], ev)
					// (a per-goroutine counter: a shared atomic would order the goroutines' steps for the race detector)
					if nsteps++; gcEvery > 0 && nsteps%gcEvery == 0 {
						runtime.GC() // empties sync.Pool-like caches and moves goroutines around
					}
				}
			}
		}(gi, steps)
	}
	// the watchdog covers the block as a whole: a goroutine that never returns (a defect can make Sqrt's correction loop
	// endless) must not void the events recorded before the block
	atomic.StoreInt64(&heartbeat, time.Now().UnixNano())
	close(start)
	wg.Wait()
	atomic.StoreInt64(&heartbeat, 0)

	enc.Encode(M{"op": "ParBegin", "out": "ok", "k": len(gs), "post": M{}, "dg": M{}})
	for gi := range evs {
		for _, ev := range evs[gi] {
			enc.Encode(ev)
		}
	}
	// the pool events in their global order (one trace event each), capped to keep traces small
	maxPool := 20000
	if v, ok := s["poolcap"]; ok {
		maxPool = int(v.(float64))
	}
	truncated := len(pevs) > maxPool
	if truncated {
		pevs = pevs[:maxPool]
	}
	for _, pe := range pevs {
		op := "PoolGet"
		if pe.Put {
			op = "PoolPut"
		}
		enc.Encode(M{"op": op, "out": "ok", "g": pe.G, "buf": pe.Buf, "seq": pe.Seq})
	}
	after := M{}
	for n := range before {
		after[n] = obs.Digest(obs.Of(m.regs[n]))
	}
	end := M{"op": "ParEnd", "out": "ok", "ret": M{"truncated": truncated, "pool": len(pevs), "before": before, "after": after}}
	m.observe(end, m.names)
	enc.Encode(end)
}

// stepPar is step() for goroutines: only the registers the step names are observed, no digests.
func (m *machine) stepPar(s M, ev M) {
	defer func() {
		if r := recover(); r != nil {
			switch e := r.(type) {
			case herr:
				panic(e)
			case decimal.ErrNaN:
				ev["out"] = "nan"
				ev["msg"] = e.Error()
			default:
				ev["out"] = "panic"
				ev["msg"] = "panic in goroutine"
			}
			ev["ret"] = M{}
		}
		post := M{}
		for _, n := range named(s) {
			post[n] = obsOf(m.regs[n])
		}
		ev["post"] = post
		ev["dg"] = M{}
	}()
	ret := m.exec(s)
	ev["out"] = "ok"
	if ret == nil {
		ret = M{}
	}
	ev["ret"] = ret
}
