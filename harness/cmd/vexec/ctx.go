package main

import (
	"math"
	"math/big"
	"strings"

	"github.com/db47h/decimal"
	dctx "github.com/db47h/decimal/context"
)

func (m *machine) ctx(s M) *dctx.Context {
	n := str(s, "c")
	c, ok := m.ctxs[n]
	if !ok {
		panic(herr("unknown context " + n))
	}
	return c
}

// execCtx runs the context.Context operations ("Ctx.<Method>").
func (m *machine) execCtx(op string, s M) (ret any, ok bool) {
	if !strings.HasPrefix(op, "Ctx.") {
		return nil, false
	}
	r := M{}
	defer func() {
		// the context's own observable state after the call (the latch is not observable)
		if c, ok := m.ctxs[str(s, "c")]; ok {
			r["cprec"] = int64(c.Prec())
			r["cmode"] = int(c.Mode())
		}
	}()
	switch op[4:] {
	case "New":
		c := dctx.New(uint(unum(s, "p")), decimal.RoundingMode(num(s, "m")))
		m.ctxs[str(s, "c")] = &c
	case "SetPrec":
		m.ctx(s).SetPrec(uint(unum(s, "p")))
	case "SetMode":
		m.ctx(s).SetMode(decimal.RoundingMode(num(s, "m")))
	case "Err":
		err := m.ctx(s).Err()
		r["err"] = err != nil
		if err != nil {
			_, isNaN := err.(decimal.ErrNaN)
			r["isnan"] = isNaN
			r["msg"] = err.Error()
		} else {
			r["isnan"] = false
			r["msg"] = ""
		}
	case "Add":
		z := m.reg(s, "z")
		r["same"] = m.ctx(s).Add(z, m.reg(s, "x"), m.reg(s, "y")) == z
	case "Sub":
		z := m.reg(s, "z")
		r["same"] = m.ctx(s).Sub(z, m.reg(s, "x"), m.reg(s, "y")) == z
	case "Mul":
		z := m.reg(s, "z")
		r["same"] = m.ctx(s).Mul(z, m.reg(s, "x"), m.reg(s, "y")) == z
	case "Quo":
		z := m.reg(s, "z")
		r["same"] = m.ctx(s).Quo(z, m.reg(s, "x"), m.reg(s, "y")) == z
	case "FMA":
		z := m.reg(s, "z")
		r["same"] = m.ctx(s).FMA(z, m.reg(s, "x"), m.reg(s, "y"), m.reg(s, "u")) == z
	case "Sqrt":
		z := m.reg(s, "z")
		r["same"] = m.ctx(s).Sqrt(z, m.reg(s, "x")) == z
	case "Neg":
		z := m.reg(s, "z")
		r["same"] = m.ctx(s).Neg(z, m.reg(s, "x")) == z
	case "Abs":
		z := m.reg(s, "z")
		r["same"] = m.ctx(s).Abs(z, m.reg(s, "x")) == z
	case "Set":
		z := m.reg(s, "z")
		r["same"] = m.ctx(s).Set(z, m.reg(s, "x")) == z
	case "NewDec":
		m.reg(s, "z")
		m.regs[str(s, "z")] = m.ctx(s).New()
	case "NewInt64":
		m.reg(s, "z")
		m.regs[str(s, "z")] = m.ctx(s).NewInt64(num(s, "i"))
	case "NewUint64":
		m.reg(s, "z")
		m.regs[str(s, "z")] = m.ctx(s).NewUint64(unum(s, "i"))
	case "NewInt":
		m.reg(s, "z")
		m.regs[str(s, "z")] = m.ctx(s).NewInt(bigInt(str(s, "i")))
	case "NewRat":
		m.reg(s, "z")
		m.regs[str(s, "z")] = m.ctx(s).NewRat(new(big.Rat).SetFrac(bigInt(str(s, "num")), bigInt(str(s, "den"))))
	case "NewFloat64":
		m.reg(s, "z")
		m.regs[str(s, "z")] = m.ctx(s).NewFloat64(math.Float64frombits(unum(s, "bits")))
	case "NewFloat":
		m.reg(s, "z")
		m.regs[str(s, "z")] = m.ctx(s).NewFloat(makeBigFloat(s))
	case "NewString":
		m.reg(s, "z")
		d, ok := m.ctx(s).NewString(str(s, "s"))
		r["ok"] = ok
		r["nilres"] = d == nil
		if d != nil {
			m.regs[str(s, "z")] = d
		} else {
			m.regs[str(s, "z")] = new(decimal.Decimal)
		}
	case "ParseDecimal":
		m.reg(s, "z")
		d, b, err := m.ctx(s).ParseDecimal(str(s, "s"), int(num(s, "base")))
		r["ok"] = err == nil
		r["b"] = b
		r["nilres"] = d == nil
		if d != nil {
			m.regs[str(s, "z")] = d
		} else {
			m.regs[str(s, "z")] = new(decimal.Decimal)
		}
	case "AddNilY":
		// a panic that is not an ErrNaN (nil operand) must propagate out of the context
		z := m.reg(s, "z")
		m.ctx(s).Add(z, m.reg(s, "x"), nil)
	default:
		panic(herr("unknown context op " + op))
	}
	return r, true
}
