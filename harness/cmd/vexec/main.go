// vexec executes programs (sequences of public API calls over named registers) against the
// db47h/decimal tree it was built from, and logs one event per call: the call, its outcome,
// its return value and the full projected state of every register the call names, plus a digest
// of every register. The linearisation point of a sequential library call is its return or
// its panic; the event is written after recover().
package main

import (
	"bufio"
	"bytes"
	"encoding/gob"
	"encoding/hex"
	"encoding/json"
	"flag"
	"fmt"
	"math"
	"math/big"
	"math/bits"
	"os"
	"sort"
	"strconv"
	"sync/atomic"
	"time"

	"github.com/db47h/decimal"
	dctx "github.com/db47h/decimal/context"

	"verif/harness/obs"
)

type M = map[string]any

// herr is a harness (not library) failure: the run is void (exit 2), never a verdict.
type herr string

type program struct {
	Thr   []int    `json:"thr"` // tuning thresholds (karatsuba, basicSqr, karatsubaSqr); defaults when absent
	ID    string   `json:"id"`
	Regs  []string `json:"regs"`
	Ctxs  []string `json:"ctxs"`
	Steps []M      `json:"steps"`
}

type machine struct {
	regs  map[string]*decimal.Decimal
	names []string
	ctxs  map[string]*dctx.Context
}

func (m *machine) reg(s M, k string) *decimal.Decimal {
	n, ok := s[k].(string)
	if !ok {
		panic(herr(fmt.Sprintf("step lacks register %q", k)))
	}
	if n == "nil" {
		return nil
	}
	r, ok := m.regs[n]
	if !ok {
		panic(herr(fmt.Sprintf("unknown register %q", n)))
	}
	return r
}

func str(s M, k string) string {
	v, ok := s[k].(string)
	if !ok {
		panic(herr(fmt.Sprintf("step lacks string %q", k)))
	}
	return v
}

func num(s M, k string) int64 {
	switch v := s[k].(type) {
	case float64:
		return int64(v)
	case string:
		n, err := strconv.ParseInt(v, 10, 64)
		if err != nil {
			panic(herr("bad int " + v))
		}
		return n
	}
	panic(herr(fmt.Sprintf("step lacks number %q", k)))
}

func unum(s M, k string) uint64 {
	switch v := s[k].(type) {
	case float64:
		return uint64(v)
	case string:
		n, err := strconv.ParseUint(v, 10, 64)
		if err != nil {
			panic(herr("bad uint " + v))
		}
		return n
	}
	panic(herr(fmt.Sprintf("step lacks number %q", k)))
}

func boolean(s M, k string) bool {
	v, ok := s[k].(bool)
	if !ok {
		panic(herr(fmt.Sprintf("step lacks bool %q", k)))
	}
	return v
}

func bigInt(v string) *big.Int {
	i, ok := new(big.Int).SetString(v, 10)
	if !ok {
		panic(herr("bad big.Int " + v))
	}
	return i
}

func wordsOf(s M, k string) []decimal.Word {
	a, ok := s[k].([]any)
	if !ok {
		panic(herr(fmt.Sprintf("step lacks words %q", k)))
	}
	if bits.UintSize == 32 {
		// programs carry base-10^19 words; a 32-bit build has base-10^9 words: pass the same integer, re-cut
		// (SetBitsExp strips leading zeros, so only the integer matters)
		n, b19 := new(big.Int), new(big.Int).SetUint64(10000000000000000000)
		for i := len(a) - 1; i >= 0; i-- {
			u, err := strconv.ParseUint(a[i].(string), 10, 64)
			if err != nil {
				panic(herr("bad word"))
			}
			n.Mul(n, b19).Add(n, new(big.Int).SetUint64(u))
		}
		var w []decimal.Word
		b9, r := big.NewInt(1000000000), new(big.Int)
		for n.Sign() != 0 {
			n.QuoRem(n, b9, r)
			w = append(w, decimal.Word(r.Uint64()))
		}
		for len(w) < (len(a)*19+8)/9 { // keep the zero top words a caller may have put there
			w = append(w, 0)
		}
		return w
	}
	w := make([]decimal.Word, len(a))
	for i, e := range a {
		u, err := strconv.ParseUint(e.(string), 10, 64)
		if err != nil {
			panic(herr("bad word"))
		}
		w[i] = decimal.Word(u)
	}
	return w
}

func accStr(a decimal.Accuracy) int { return int(a) }

// splitFloat64 decomposes a float64 exactly: kind in {"zero","inf","nan","fin"}, value = mant * 2^exp2.
func splitFloat64(f float64) M {
	r := M{"neg": math.Signbit(f)}
	switch {
	case math.IsNaN(f):
		r["k"] = "nan"
	case math.IsInf(f, 0):
		r["k"] = "inf"
	case f == 0:
		r["k"] = "zero"
	default:
		b := math.Float64bits(f)
		e := int((b >> 52) & 0x7ff)
		m := b & (1<<52 - 1)
		if e == 0 {
			e = 1
		} else {
			m |= 1 << 52
		}
		r["k"] = "fin"
		r["m"] = strconv.FormatUint(m, 10)
		r["e2"] = e - 1075
	}
	return r
}

func splitFloat32(f float32) M {
	r := M{"neg": math.Signbit(float64(f))}
	switch {
	case f != f:
		r["k"] = "nan"
	case math.IsInf(float64(f), 0):
		r["k"] = "inf"
	case f == 0:
		r["k"] = "zero"
	default:
		b := math.Float32bits(f)
		e := int((b >> 23) & 0xff)
		m := uint64(b & (1<<23 - 1))
		if e == 0 {
			e = 1
		} else {
			m |= 1 << 23
		}
		r["k"] = "fin"
		r["m"] = strconv.FormatUint(m, 10)
		r["e2"] = e - 150
	}
	return r
}

// splitBigFloat decomposes a *big.Float exactly as mant * 2^e2 with an integer mant.
func splitBigFloat(f *big.Float) M {
	if f == nil {
		return M{"k": "nil"}
	}
	r := M{"neg": f.Signbit(), "prec": int64(f.Prec()), "mode": int(f.Mode()), "acc": int(f.Acc())}
	switch {
	case f.IsInf():
		r["k"] = "inf"
	case f.Sign() == 0:
		r["k"] = "zero"
	default:
		t := new(big.Float).Copy(f)
		e := t.MantExp(t)
		mp := int(t.MinPrec())
		t.SetMantExp(t, mp)
		i, acc := t.Int(nil)
		if acc != big.Exact {
			panic(herr("inexact big.Float split"))
		}
		i.Abs(i)
		r["k"] = "fin"
		r["m"] = i.String()
		r["e2"] = e - mp
	}
	return r
}

// makeBigFloat builds a *big.Float with given precision/mode holding neg * m * 2^e2 exactly
// (precision must be able to hold m) or zero/inf.
func makeBigFloat(s M) *big.Float {
	f := new(big.Float).SetPrec(uint(unum(s, "fprec"))).SetMode(big.RoundingMode(num(s, "fmode")))
	switch str(s, "fk") {
	case "zero":
		if boolean(s, "fneg") {
			f.Neg(f)
		}
	case "inf":
		f.SetInf(boolean(s, "fneg"))
	default:
		m := bigInt(str(s, "fm"))
		f.SetInt(m)
		if f.Acc() != big.Exact {
			panic(herr("big.Float precision too small for mantissa"))
		}
		f.SetMantExp(f, int(num(s, "fe2")))
		if boolean(s, "fneg") {
			f.Neg(f)
		}
	}
	return f
}

// exec runs one step; ret is the observer result (nil if none).
func (m *machine) exec(s M) (ret any) {
	op := str(s, "op")
	switch op {
	case "Add":
		m.reg(s, "z").Add(m.reg(s, "x"), m.reg(s, "y"))
	case "Sub":
		m.reg(s, "z").Sub(m.reg(s, "x"), m.reg(s, "y"))
	case "Mul":
		m.reg(s, "z").Mul(m.reg(s, "x"), m.reg(s, "y"))
	case "Quo":
		m.reg(s, "z").Quo(m.reg(s, "x"), m.reg(s, "y"))
	case "FMA":
		m.reg(s, "z").FMA(m.reg(s, "x"), m.reg(s, "y"), m.reg(s, "u"))
	case "Sqrt":
		m.reg(s, "z").Sqrt(m.reg(s, "x"))
	case "Neg":
		m.reg(s, "z").Neg(m.reg(s, "x"))
	case "Abs":
		m.reg(s, "z").Abs(m.reg(s, "x"))
	case "Set":
		m.reg(s, "z").Set(m.reg(s, "x"))
	case "Copy":
		m.reg(s, "z").Copy(m.reg(s, "x"))
	case "SetPrec":
		m.reg(s, "z").SetPrec(uint(unum(s, "p")))
	case "SetPrecMax":
		m.reg(s, "z").SetPrec(decimal.MaxPrec)
	case "SetMode":
		m.reg(s, "z").SetMode(decimal.RoundingMode(num(s, "m")))
	case "SetInf":
		m.reg(s, "z").SetInf(boolean(s, "neg"))
	case "SetInt64":
		m.reg(s, "z").SetInt64(num(s, "i"))
	case "SetUint64":
		m.reg(s, "z").SetUint64(unum(s, "i"))
	case "SetInt":
		m.reg(s, "z").SetInt(bigInt(str(s, "i")))
	case "SetRat":
		r := new(big.Rat).SetFrac(bigInt(str(s, "num")), bigInt(str(s, "den")))
		m.reg(s, "z").SetRat(r)
	case "NewDecimal":
		if e := num(s, "e"); int64(int(e)) != e {
			// a 32-bit build cannot even pass this exponent: the step is not executed there (the log comparison skips it)
			return M{"skip32": true}
		}
		d := decimal.NewDecimal(num(s, "i"), int(num(s, "e")))
		m.reg(s, "z")
		m.regs[str(s, "z")] = d
	case "Load":
		// set-up pseudo-operation: attributes, then a decimal literal; the specification adopts the result
		z := m.reg(s, "z")
		z.SetPrec(uint(unum(s, "p"))).SetMode(decimal.RoundingMode(num(s, "m")))
		if _, ok := z.SetString(str(s, "s")); !ok {
			panic(herr("Load: literal rejected: " + str(s, "s")))
		}
	case "New":
		// a brand-new zero value in register z (drops the old buffer)
		m.regs[str(s, "z")] = new(decimal.Decimal)
	case "SetFloat64":
		m.reg(s, "z").SetFloat64(math.Float64frombits(unum(s, "bits")))
	case "SetFloat":
		m.reg(s, "z").SetFloat(makeBigFloat(s))
	case "SetMantExp":
		m.reg(s, "z").SetMantExp(m.reg(s, "x"), int(num(s, "e")))
	case "MantExp":
		e := m.reg(s, "x").MantExp(m.reg(s, "z"))
		ret = M{"exp": strconv.Itoa(e)}
	case "SetBitsExp":
		w, e := wordsOf(s, "words"), num(s, "e")
		if bits.UintSize == 32 {
			// the value is 0.mant x 10^e with mant as wide as the slice: re-cut words are 9 digits wide, not 19
			e += int64(9*len(w) - 19*len(s["words"].([]any)))
		}
		m.reg(s, "z").SetBitsExp(w, e)
	case "SetBitsExpSelf":
		// the other allowed source: a slice obtained from BitsExp of the same receiver
		z := m.reg(s, "z")
		w, _ := z.BitsExp()
		z.SetBitsExp(w, num(s, "e"))
	case "Parse", "SetString", "UnmarshalText", "ParseDecimal", "UnmarshalJSON", "Scan":
		ret = m.parse(op, s)
	case "BitsExp":
		w, e := m.reg(s, "x").BitsExp()
		ws := []string{}
		for _, v := range w {
			ws = append(ws, strconv.FormatUint(uint64(v), 10))
		}
		ret = M{"words": ws, "exp": e}
	case "Cmp":
		ret = M{"v": m.reg(s, "x").Cmp(m.reg(s, "y"))}
	case "Preds":
		x := m.reg(s, "x")
		ret = M{"sign": x.Sign(), "signbit": x.Signbit(), "isinf": x.IsInf(), "iszero": x.IsZero(), "isint": x.IsInt(),
			"minprec": int64(x.MinPrec()), "prec": int64(x.Prec()), "mode": int(x.Mode()), "acc": int(x.Acc())}
	case "IsInt":
		x := m.reg(s, "x")
		ret = M{"isint": x.IsInt(), "minprec": int64(x.MinPrec())}
	case "Int64":
		v, a := m.reg(s, "x").Int64()
		ret = M{"v": strconv.FormatInt(v, 10), "acc": accStr(a)}
	case "Uint64":
		v, a := m.reg(s, "x").Uint64()
		ret = M{"v": strconv.FormatUint(v, 10), "acc": accStr(a)}
	case "Int":
		var z *big.Int
		if k, _ := s["into"].(string); k != "" {
			z = bigInt(k)
		}
		v, a := m.reg(s, "x").Int(z)
		if v == nil {
			ret = M{"nil": true, "v": "0", "acc": accStr(a)}
		} else {
			ret = M{"nil": false, "v": v.String(), "acc": accStr(a)}
		}
	case "Rat":
		var z *big.Rat
		if k, _ := s["into"].(string); k != "" {
			z = new(big.Rat).SetFrac(bigInt(k), big.NewInt(7))
		}
		v, a := m.reg(s, "x").Rat(z)
		if v == nil {
			ret = M{"nil": true, "num": "0", "den": "1", "acc": accStr(a)}
		} else {
			ret = M{"nil": false, "num": v.Num().String(), "den": v.Denom().String(), "acc": accStr(a)}
		}
	case "Float64":
		f, a := m.reg(s, "x").Float64()
		r := splitFloat64(f)
		r["acc"] = accStr(a)
		ret = r
	case "Float32":
		f, a := m.reg(s, "x").Float32()
		r := splitFloat32(f)
		r["acc"] = accStr(a)
		ret = r
	case "Float":
		var z *big.Float
		if _, ok := s["fprec"]; ok {
			z = new(big.Float).SetPrec(uint(unum(s, "fprec"))).SetMode(big.RoundingMode(num(s, "fmode")))
		}
		ret = splitBigFloat(m.reg(s, "x").Float(z))
	case "Text":
		r := M{"s": m.reg(s, "x").Text(str(s, "fmt")[0], int(num(s, "prec")))}
		if _, ok := s["f64"]; ok {
			// second implementation of the layout rules: strconv on the float64 of the same value
			r["ref"] = strconv.FormatFloat(math.Float64frombits(unum(s, "f64")), str(s, "fmt")[0], int(num(s, "prec")), 64)
		}
		ret = r
	case "TextParse":
		// C11: x -> text -> parse into z
		x, z := m.reg(s, "x"), m.reg(s, "z")
		var text string
		var ok bool
		switch str(s, "via") {
		case "text":
			b, err := x.MarshalText()
			text = string(b)
			ok = err == nil && z.UnmarshalText(b) == nil
		case "json":
			b, err := json.Marshal(x)
			text = string(b)
			ok = err == nil && json.Unmarshal(b, z) == nil
		default:
			text = x.Text(str(s, "fmt")[0], -1)
			_, _, err := z.Parse(text, 0)
			ok = err == nil
		}
		ret = M{"s": text, "ok": ok}
	case "Append":
		pre := str(s, "pre")
		ret = M{"s": string(m.reg(s, "x").Append([]byte(pre), str(s, "fmt")[0], int(num(s, "prec"))))}
	case "String":
		ret = M{"s": m.reg(s, "x").String()}
	case "Format":
		x := m.reg(s, "x")
		f := str(s, "f")
		r := M{"s": fmt.Sprintf(f, x)}
		if _, ok := s["f64"]; ok {
			// second implementation: package fmt on the float64 of the same value
			r["ref"] = fmt.Sprintf(f, math.Float64frombits(unum(s, "f64")))
		}
		ret = r
	case "MarshalText":
		b, err := m.reg(s, "x").MarshalText()
		ret = M{"s": string(b), "err": err != nil}
	case "MarshalJSON":
		b, err := json.Marshal(m.reg(s, "x"))
		ret = M{"s": string(b), "err": err != nil}
	case "GobEncode":
		b, err := m.reg(s, "x").GobEncode()
		ret = M{"hex": hex.EncodeToString(b), "err": err != nil}
	case "GobDecode":
		b, err := hex.DecodeString(str(s, "hex"))
		if err != nil {
			panic(herr("bad hex"))
		}
		e := m.reg(s, "z").GobDecode(b)
		ret = M{"err": e != nil}
	case "GobMutate":
		// encode x, corrupt the payload as the step says, decode into z; the corrupted payload is logged
		b, err := m.reg(s, "x").GobEncode()
		if err != nil {
			panic(herr("GobEncode failed"))
		}
		switch str(s, "mut") {
		case "xor":
			if len(b) > 0 {
				b[int(num(s, "pos"))%len(b)] ^= byte(num(s, "val"))
			}
		case "set":
			if len(b) > 0 {
				b[int(num(s, "pos"))%len(b)] = byte(num(s, "val"))
			}
		case "trunc":
			b = b[:int(num(s, "pos"))%(len(b)+1)]
		case "append":
			x, _ := hex.DecodeString(str(s, "bytes"))
			b = append(b, x...)
		case "settail": // overwrite the last word's top bytes (mantissa words >= 10^19, unnormalised words)
			if len(b) >= 18 {
				i := 10 + 8*(int(num(s, "pos"))%((len(b)-10)/8))
				x, _ := hex.DecodeString(str(s, "bytes"))
				copy(b[i:], x)
			}
		}
		e := m.reg(s, "z").GobDecode(b)
		ret = M{"err": e != nil, "hex": hex.EncodeToString(b)}
	case "GobStream":
		var buf bytes.Buffer
		if err := gob.NewEncoder(&buf).Encode(m.reg(s, "x")); err != nil {
			ret = M{"err": true}
			break
		}
		e := gob.NewDecoder(&buf).Decode(m.reg(s, "z"))
		ret = M{"err": e != nil}
	case "GobRoundTrip":
		// x -> GobEncode -> GobDecode into z
		b, err := m.reg(s, "x").GobEncode()
		if err != nil {
			ret = M{"err": true, "hex": ""}
			break
		}
		e := m.reg(s, "z").GobDecode(b)
		ret = M{"err": e != nil, "hex": hex.EncodeToString(b)}
	default:
		if r, ok := m.execNat(op, s); ok {
			return r
		}
		if r, ok := m.execCtx(op, s); ok {
			return r
		}
		panic(herr("unknown op " + op))
	}
	return ret
}

var curThr = []int{30, 10, 50}

// heartbeat holds the start time (unix ns) of the library call in progress, 0 when none
var heartbeat int64

func main() {
	// scratch buffers are poisoned when handed out and when put back: a use after put, or a
	// reliance on zeroed scratch memory, corrupts results deterministically (C18, C06)
	decimal.VerifPoolEnable(true, nil)
	in := flag.String("in", "", "programs (ndjson)")
	out := flag.String("out", "", "events (ndjson)")
	stepTimeout := flag.Duration("steptimeout", 60*time.Second, "give up (exit 3, events so far are kept) when one step runs longer than this")
	flag.Parse()
	fi, err := os.Open(*in)
	if err != nil {
		fmt.Fprintln(os.Stderr, err)
		os.Exit(2)
	}
	fo, err := os.Create(*out)
	if err != nil {
		fmt.Fprintln(os.Stderr, err)
		os.Exit(2)
	}
	w := bufio.NewWriterSize(fo, 1<<20)
	enc := json.NewEncoder(w)
	// watchdog: a library call that does not return (a defect can make later operations loop) must not void
	// the events already recorded; the main goroutine is stuck inside the call, so flushing here is safe
	go func() {
		for {
			time.Sleep(time.Second)
			if last := atomic.LoadInt64(&heartbeat); last != 0 && time.Since(time.Unix(0, last)) > *stepTimeout {
				w.Flush()
				fo.Close()
				fmt.Fprintln(os.Stderr, "vexec: step timeout: a library call did not return")
				os.Exit(3)
			}
		}
	}()
	sc := bufio.NewScanner(fi)
	sc.Buffer(make([]byte, 1<<20), 1<<30)
	for sc.Scan() {
		var p program
		if err := json.Unmarshal(sc.Bytes(), &p); err != nil {
			fmt.Fprintln(os.Stderr, "bad program:", err)
			os.Exit(2)
		}
		runProgram(&p, enc)
	}
	if err := w.Flush(); err != nil {
		fmt.Fprintln(os.Stderr, err)
		os.Exit(2)
	}
	fo.Close()
}

func runProgram(p *program, enc *json.Encoder) {
	m := &machine{regs: map[string]*decimal.Decimal{}, ctxs: map[string]*dctx.Context{}}
	m.names = append(m.names, p.Regs...)
	sort.Strings(m.names)
	for _, n := range m.names {
		m.regs[n] = new(decimal.Decimal)
	}
	for _, n := range p.Ctxs {
		c := dctx.New(0, decimal.ToNearestEven)
		m.ctxs[n] = &c
	}
	thr := []int{30, 10, 50}
	if len(p.Thr) == 3 {
		thr = p.Thr
	}
	decimal.VerifSetThresholds(thr[0], thr[1], thr[2])
	curThr = thr
	ctxNames := p.Ctxs
	if ctxNames == nil {
		ctxNames = []string{}
	}
	reset := M{"op": "Reset", "prog": p.ID, "out": "ok", "regs": m.names, "ctxs": ctxNames}
	m.observe(reset, m.names)
	enc.Encode(reset)
	for _, s := range p.Steps {
		if s["op"] == "Par" {
			m.runPar(s, enc)
			continue
		}
		ev := M{}
		for k, v := range s {
			ev[k] = v
		}
		m.step(s, ev)
		enc.Encode(ev)
	}
}

// named returns the registers a step names (in the keys z x y u).
func named(s M) []string {
	var n []string
	seen := map[string]bool{}
	for _, k := range []string{"z", "x", "y", "u"} {
		if v, ok := s[k].(string); ok && v != "nil" && !seen[v] {
			seen[v] = true
			n = append(n, v)
		}
	}
	return n
}

func obsOf(x *decimal.Decimal) obs.Obs { return obs.Of(x) }

func (m *machine) observe(ev M, full []string) {
	post := M{}
	dg := M{}
	isFull := map[string]bool{}
	for _, n := range full {
		isFull[n] = true
	}
	for _, n := range m.names {
		o := obs.Of(m.regs[n])
		dg[n] = obs.Digest(o)
		if isFull[n] {
			post[n] = o
		}
	}
	ev["post"] = post
	ev["dg"] = dg
}

func (m *machine) step(s M, ev M) {
	atomic.StoreInt64(&heartbeat, time.Now().UnixNano())
	defer atomic.StoreInt64(&heartbeat, 0)
	defer func() {
		if r := recover(); r != nil {
			switch e := r.(type) {
			case herr:
				fmt.Fprintln(os.Stderr, "harness error:", string(e), "in step", s)
				os.Exit(2)
			case decimal.ErrNaN:
				ev["out"] = "nan"
				ev["msg"] = e.Error()
			default:
				ev["out"] = "panic"
				ev["msg"] = fmt.Sprintf("%T: %v", r, r)
			}
			ev["ret"] = M{}
		}
		m.observe(ev, named(s))
	}()
	ret := m.exec(s)
	ev["out"] = "ok"
	if ret == nil {
		ret = M{}
	}
	ev["ret"] = ret
}
