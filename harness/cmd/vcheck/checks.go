package main

import (
	"time"

	"verif/harness/gen"
)

// model is one bounded TLC model of the (E) layer.
type model struct {
	mod      string
	quick    map[string]string // CONSTANT overrides for the quick tier
	thorough map[string]string
	qTimeout time.Duration
	tTimeout time.Duration
	args     []string
	// expectViolation names an invariant that MUST be violated (non-vacuity: the model with the named defect)
	expectViolation string
}

func (m model) timeout(thor bool) time.Duration {
	if thor {
		if m.tTimeout != 0 {
			return m.tTimeout
		}
		return 60 * time.Minute
	}
	if m.qTimeout != 0 {
		return m.qTimeout
	}
	return 10 * time.Minute
}

// check is everything vcheck needs to decide one property.
type check struct {
	id          string
	models      []model
	trace       string // trace specification module
	gen         func(g *gen.G, thor bool) []gen.Program
	batch       int      // programs per TLC batch
	sim         *simSpec // (G): additional programs = behaviours of a TLA+ state machine simulated by TLC
	race        bool     // also run the programs in a -race, decimal_pure_go build: any race report is a violation
	proofs      []string // TLAPS proof modules (spec/proofs) checked in every run
	builds      []string // build-tag sets under which the programs run; the event logs must be identical (default: the default build only)
	rule        string
	assumptions []string
	req         []string // coverage cells that a run must hit (else the run is vacuous: exit 2)
	reqThor     []string
}

// simSpec asks TLC to simulate a state-machine module and to print the action labels (spec -> code).
type simSpec struct {
	mod            string
	qNum, tNum     int // behaviours
	qDepth, tDepth int // steps per behaviour
}

func (c *check) required(thor bool) []string {
	if thor {
		return append(append([]string{}, c.req...), c.reqThor...)
	}
	return c.req
}

func n(thor bool, q, t int) int {
	if thor {
		return t
	}
	return q
}

var mcRound = model{mod: "MC_Round", quick: map[string]string{"NMax": "120", "PMax": "3"}, thorough: map[string]string{"NMax": "1100", "PMax": "3"}}
var mcSum = model{mod: "MC_Sum", quick: map[string]string{"NMax": "30", "PMax": "2", "GapMax": "9"}, thorough: map[string]string{"NMax": "110", "PMax": "2", "GapMax": "10"}}
var mcBigNat = model{mod: "MC_BigNat", quick: map[string]string{"Bound": "60", "NRand": "100", "MaxLen": "24"}, thorough: map[string]string{"Bound": "300", "NRand": "1000", "MaxLen": "30"}}

var coreSim = &simSpec{mod: "MC_CoreSim", qNum: 40, tNum: 1500, qDepth: 40, tDepth: 60}
var mcCore = model{mod: "MC_Core", quick: map[string]string{"Depth": "2"}, thorough: map[string]string{"Depth": "3"}}

var mcSqrt = model{mod: "MC_Sqrt", quick: map[string]string{"NMax": "400", "PMax": "3"}, thorough: map[string]string{"NMax": "10000", "PMax": "4"}}
var mcSpecial = model{mod: "MC_Special"}
var mcTextQ = model{mod: "MC_Text", quick: map[string]string{"CMax": "99"}, thorough: map[string]string{"CMax": "999"}}
var mcGob = model{mod: "MC_Gob", quick: map[string]string{"CMax": "120"}, thorough: map[string]string{"CMax": "3000"}}
var mcContext = model{mod: "MC_Context", quick: map[string]string{"Depth": "2"}, thorough: map[string]string{"Depth": "3"}}

var mcSmall = model{mod: "MC_Small", quick: map[string]string{"CMax": "40"}, thorough: map[string]string{"CMax": "150"}}

var commonAssumptions = []string{
	"the BigInteger accelerators of BigNat agree with their pure TLA+ definitions beyond the operands compared by MC_BigNat",
	"operand sizes, precisions (< 2^31) and exponent gaps are bounded by the generators (see rule)",
	"the observation function (public accessors BitsExp/Prec/Mode/Acc/Signbit/IsInf/IsZero/MinPrec/MantExp) reports the receiver's real state",
}

var roundReq = []string{"Add:tie-up", "Add:tie-down", "Add:carry", "Sub:fits", "Mul:up", "Mul:down", "Quo:exact", "Quo:up", "Quo:down",
	"Add:underflow", "Mul:overflow", "Mul:underflow", "Quo:overflow", "Quo:underflow", "Quo:tie-up", "Quo:tie-down", "Set:up", "SetPrec:down",
	"Add:stickyonly-up", "Add:stickyonly-down", "Sub:stickyonly-down"}

var checks = map[string]*check{
	"C01": {
		id: "C01", models: []model{mcBigNat, mcRound, mcSum}, trace: "Trace_Core", batch: 4,
		gen: func(g *gen.G, thor bool) []gen.Program {
			return append(append(gen.Round(g, n(thor, 1500, 40000)), gen.BigQuo(g, n(thor, 10, 150))...), gen.Ctx(g, n(thor, 8, 100), 150)...)
		},
		rule:        "context sessions (the same operations reached through package context, receivers and operands whose own precision and mode differ from the context's); cases = Add/Sub/Mul/Quo/Set/SetPrec/Neg/Abs calls on operands built from adversarial digit patterns (ties, near-ties, all-nines carries, cancellation, exponent gaps around the precision, exact quotients by multi-word 9/0-run divisors, exponents within 60 of the int32 limits; quotients by 100-140 word divisors (5000..0999..9, 99..900..01 patterns) at precisions of 1000-5000 digits into dirty receivers) x 6 modes x aliasing shapes x receiver histories; a case is non-trivial/distinct by its specification branch cell (operation x rounding branch x operand forms), counted by TLC in the trace specification's cov variable",
		assumptions: commonAssumptions, req: roundReq,
	},
	"C03": {
		id: "C03", models: []model{mcSum}, trace: "Trace_Core", batch: 4,
		gen: func(g *gen.G, thor bool) []gen.Program {
			return append(gen.FMA(g, n(thor, 1500, 40000)), gen.Ctx(g, n(thor, 10, 100), 150)...)
		},
		rule:        "context sessions (FMA through package context into receivers whose precision and mode differ from the context's); exactly zero sums of a zero product and a zero addend x 6 modes x signs x every receiver; FMA calls: random triples, targeted exact sums x*y+u with delicate digits after the precision, massive cancellation (u = -(x*y) +- 1 ulp), u far above/below the product, products whose exponent leaves int32 while the sum stays inside, zero/infinite operands; x 6 modes x aliasing partitions of (z,x,y,u) x receiver histories; distinct by specification branch cell; the trace spec also classifies each finite case as same-as / differs-from Mul-then-Add",
		assumptions: commonAssumptions,
		req:         []string{"FMA:differs-from-mul-add", "FMA:same-as-mul-add", "FMA:tie-up", "FMA:tie-down", "FMA:fits", "FMA:special"},
	},
	"C04": {
		id: "C04", models: []model{mcSpecial}, trace: "Trace_Core", batch: 4, sim: coreSim,
		gen:         func(g *gen.G, thor bool) []gen.Program { return gen.Special(g, thor) },
		rule:        "complete enumeration of operation x operand classes {-Inf,-finite,-0,+0,+finite,+Inf}^k x six modes (x aliasing shapes, receiver precision 0 / > 0, finite magnitudes ordinary / near MinExp / near MaxExp); a case is distinct by operation x class tuple (cov cell)",
		assumptions: commonAssumptions,
	},
	"C05": {
		id: "C05", models: []model{mcSqrt}, trace: "Trace_Core", batch: 4,
		gen:         func(g *gen.G, thor bool) []gen.Program { return gen.Sqrt(g, n(thor, 1500, 40000)) },
		rule:        "Sqrt of perfect squares r^2 (r of 1..p+2 digits), their neighbours r^2+-1, squares of midpoints (ties), random operands of 1..4000 digits, odd and even exponents incl. the int32 limits, zeros/infinities/negatives; receiver precision 0, smaller, equal, larger than x's; six modes with x's mode different from the receiver's; receiver == x; expected value from the integer-square-root specification and, independently, the squaring-only declarative predicate SqrtOK on the observed root",
		assumptions: commonAssumptions,
		req:         []string{"Sqrt:perfect-square", "Sqrt:irrational", "Sqrt:even-exp", "Sqrt:odd-exp", "Sqrt:prec0", "Sqrt:zprec<xprec", "Sqrt:zprec>xprec", "Sqrt:nan", "Sqrt:zero", "Sqrt:inf"},
	},
	"C06": {
		id: "C06", trace: "Trace_Core", batch: 2,
		models: []model{
			{mod: "MC_Algo", quick: map[string]string{"Bs": "4", "ULen": "5", "VLen": "3"}, thorough: map[string]string{"Bs": "4", "ULen": "7", "VLen": "4"}},
			{mod: "MC_Algo", quick: map[string]string{"Bs": "10", "ULen": "3", "VLen": "2"}, thorough: map[string]string{"Bs": "10", "ULen": "4", "VLen": "3"}},
			{mod: "MC_Algo", quick: map[string]string{"Bs": "4", "ULen": "5", "VLen": "3", "AddBackWraps": "FALSE"}, expectViolation: "Inv"},
			// recursive division (threshold 4) and the model of defect D25
			{mod: "MC_Algo", quick: map[string]string{"Bs": "2", "DivRecThr": "4", "ULen": "11", "VLen": "5"}, thorough: map[string]string{"Bs": "2", "DivRecThr": "4", "ULen": "13", "VLen": "6"}},
			{mod: "MC_Algo", quick: map[string]string{"Bs": "2", "DivRecThr": "4", "ULen": "9", "VLen": "4"}, thorough: map[string]string{"Bs": "4", "DivRecThr": "4", "ULen": "7", "VLen": "4"}},
			{mod: "MC_Algo", quick: map[string]string{"Bs": "2", "DivRecThr": "4", "ULen": "11", "VLen": "5", "LowBlockAtB": "TRUE"}, expectViolation: "Inv"},
			// multiplication and squaring: schoolbook, Karatsuba, unbalanced operands, under two threshold assignments
			{mod: "MC_AlgoMul", quick: map[string]string{"Bs": "3", "XLen": "5", "YLen": "4"}, thorough: map[string]string{"Bs": "4", "XLen": "5", "YLen": "4"}},
			{mod: "MC_AlgoMul", quick: map[string]string{"Bs": "3", "XLen": "5", "YLen": "3", "KarThr": "3", "BasicSqrThr": "3", "KarSqrThr": "4"},
				thorough: map[string]string{"Bs": "3", "XLen": "6", "YLen": "4", "KarThr": "3", "BasicSqrThr": "3", "KarSqrThr": "4"}}},
		gen: func(g *gen.G, thor bool) []gen.Program {
			return append(append(gen.Nat(g, n(thor, 24, 160), n(thor, 40, 120)), gen.BigOps(g, n(thor, 10, 60))...), gen.BigQuo(g, n(thor, 10, 150))...)
		},
		rule:        "dec.mul / dec.sqr / dec.div through the verif hooks: operand lengths 1..350 words (1000 in thorough), balanced, unbalanced and 1-3 word multipliers, word alphabet {0, 1, base-1, base-2, base/2, base/10, random}, exact and nearly exact quotients u = q*v (+0..2, +v-1) by patterned divisors, divisors >= 100 words (recursive division), dirty destination buffers, scratch buffers poisoned on get and put, under 8 threshold assignments (Karatsuba 2..40, squaring (2,4) (3,3) (10,50) ...); TLC checks Val(z) = Val(x)*Val(y), u = q*v + r with r < v and normalisation with exact arithmetic and classifies each call by code path; plus Mul/Quo through the public API on the same sizes with lowered thresholds",
		assumptions: commonAssumptions,
		req:         []string{"N.mul:basic", "N.mul:karatsuba", "N.mul:karatsuba+unbalanced", "N.mul:mulAddWW", "N.sqr:basicMul", "N.sqr:basicSqr", "N.sqr:karatsubaSqr", "N.sqr:karatsubaSqr+tail", "N.div:divW", "N.div:divBasic", "N.div:divRecursive", "N.div:small", "N.div:exact", "N.div:remainder"},
	},
	"C07": {
		id: "C07", trace: "Trace_Core", batch: 2,
		models: []model{
			{mod: "MC_Kernels", quick: map[string]string{"KW": "1", "NMax": "2"}, thorough: map[string]string{"KW": "1", "NMax": "3"}},
			{mod: "MC_Kernels", quick: map[string]string{"KW": "2", "NMax": "2"}}},
		gen: func(g *gen.G, thor bool) []gen.Program {
			return append(gen.Kernel(g, thor), append(gen.Round(g, n(thor, 300, 4000)), gen.Nat(g, n(thor, 8, 40), 20)...)...)
		},
		builds:      []string{"", "decimal_pure_go", "math_big_pure_go"},
		rule:        "structured enumeration of kernel inputs: vector lengths {0..9,15..17,31..33,63..65,70} (0..70 in thorough) x carry patterns (none, all, alternating, into the last word, random) x destination disjoint / = x / = y for add10VV, sub10VV; for shl10VU / shr10VU also destinations overlapping the source 1..n words above / below it (how dec.shl / dec.shr move a value inside one buffer); carry-run lengths x y in {0,1,base-1,random} for add10VW, sub10VW; shifts 0..18 x words {base-1, 10^k, k*10^s-1, small low digits} for shl10VU, shr10VU; multipliers/divisors {0,1,2,base/2,base-1,10^k,random} for mulAdd10VWW, addMul10VVW, div10VWW; edge and random scalars for mul10WW, mulAdd10WWW, div10W, div10WW; the 18 rows of the division-by-10^k table dumped from the library are checked by TLC against the Granlund-Montgomery sufficient condition (exact arithmetic: a statement about all 2^64 inputs of the shift kernels' divisions); every call runs the build's implementation and the portable Go one, both must satisfy the mathematical post-condition (KernelPost / ScalarPost) and agree; the whole-library programs run under the default, decimal_pure_go and math_big_pure_go builds and the three event logs must be identical",
		assumptions: append(append([]string{}, commonAssumptions...), "TLC does not read assembly: equivalence is established on the enumerated inputs"),
		req:         []string{"K:add10VV", "K:sub10VV", "K:add10VW", "K:sub10VW", "K:shl10VU", "K:shr10VU", "K:mulAdd10VWW", "K:addMul10VVW", "K:div10VWW", "K:mul10WW", "K:div10W", "K:div10WW", "K:add10VV:inplace", "K:shr10VU:inplace", "K:shl10VU:overlap", "K:shr10VU:overlap", "K.tables"},
	},
	"C08": {
		id: "C08", models: []model{mcCore}, trace: "Trace_Core", batch: 4, sim: coreSim,
		gen: func(g *gen.G, thor bool) []gen.Program {
			return append(gen.History(g, n(thor, 40, 600), n(thor, 200, 400)), gen.Raw(g, n(thor, 300, 5000))...)
		},
		rule:        "long histories (200-400 calls) mixing setters, arithmetic, FMA, Sqrt, SetPrec/SetMode/SetInf, SetMantExp/MantExp, SetBitsExp within its contract, over four registers reused and aliased at random, plus raw-access programs; Canonical (words below the base, non-zero leading digit, MinPrec <= Prec, exponent in range, getters agree with raw state) is evaluated by TLC on every register named by every event; distinct by operation x branch cell",
		assumptions: commonAssumptions,
	},
	"C09": {
		id: "C09", models: []model{mcCore}, trace: "Trace_Core", batch: 4, sim: coreSim,
		gen: func(g *gen.G, thor bool) []gen.Program {
			// the special-value table too: with zeros and infinities as operands the precision-0 rule takes other code paths
			return append(append(gen.History(g, n(thor, 40, 600), n(thor, 200, 400)), gen.Alias(g, n(thor, 150, 3000))...), gen.Special(g, thor)...)
		},
		rule:        "every operation x receiver precision {0, >0} x receiver mode x operand attributes in long random histories, in all aliasing shapes, and over the complete special-value table (operand classes x modes, operands of different precisions); TLC compares the receiver's precision and mode with the documented value after every call, every non-receiver operand with the model state (all attributes), and the digest of every unnamed register with its previous digest",
		assumptions: commonAssumptions,
	},
	"C10": {
		id: "C10", models: []model{}, trace: "Trace_Core", batch: 4, sim: coreSim,
		gen:         func(g *gen.G, thor bool) []gen.Program { return gen.Alias(g, n(thor, 300, 8000)) },
		rule:        "each generated operation instance is executed under every aliasing partition of (z,x,y) (5) / (z,x,y,u) (13) and three receiver histories (fresh, previously 400-800 digits, previously special without buffer); all variants are validated against the buffer-free specification, so they agree with each other",
		assumptions: commonAssumptions,
	},
	"C11": {
		id: "C11", models: []model{mcTextQ}, trace: "Trace_Core", batch: 4,
		gen:         func(g *gen.G, thor bool) []gen.Program { return gen.Roundtrip(g, n(thor, 700, 20000)) },
		rule:        "x -> Text(e|E|g|G|p|b|f, -1) / MarshalText / json.Marshal -> Parse / UnmarshalText / json.Unmarshal into a receiver of sufficient precision, for mantissas of 1..5000 digits (trailing and interior zero words), exponents over the whole int32 range (moderate for f), both signs, zeros, infinities; TLC checks the produced string against the specification's layout (exactly MinPrec digits) and the re-read value against x",
		assumptions: commonAssumptions,
		req:         []string{"TextParse:fmt:e", "TextParse:fmt:g", "TextParse:fmt:p", "TextParse:fmt:b", "TextParse:fmt:f", "TextParse:text:e", "TextParse:inf", "TextParse:zero"},
	},
	"C12": {
		id: "C12", trace: "Trace_Core", batch: 4,
		models: []model{{mod: "MC_Parse", quick: map[string]string{"LMax": "5"}, thorough: map[string]string{"LMax": "6"}}},
		gen: func(g *gen.G, thor bool) []gen.Program {
			if thor {
				return append(gen.Parse(g, 60000), gen.ParseAll(g, 5, 3)...)
			}
			return append(gen.Parse(g, 2500), gen.ParseAll(g, 4, 7)...)
		},
		rule:        "EVERY string of up to 3 characters (and every 7th of length 4; thorough: every 3rd up to length 5) over {0 1 9 a _ . e p x b - +} with base argument 0 and one of 2/8/10/16 (small-scope exhaustive conformance; MC_Parse compares the recogniser with the documented EBNF on every string up to length 5 (6) at design level); Parse/SetString/UnmarshalText/json.Unmarshal/ParseDecimal/Scan of structured literals (up to thousands of digits, radix point anywhere, leading/trailing zeros, delicate digits after the precision, decimal exponents at and beyond the int32/int64 limits, binary exponents incl. unrepresentable ones), the Inf spellings and near misses, a corpus of separator/prefix edge cases, mutated literals (insert/delete/replace one or two bytes) and random strings over the grammar's alphabet, bases {0,2,8,10,16}, six modes, precision 0 and > 0; math/big's Float.Parse runs on the same strings as a second implementation of the recogniser",
		assumptions: append(append([]string{}, commonAssumptions...), "binary exponents between 300000 and 10^10 in magnitude are left free (DESIGN 3.6)"),
		req:         []string{"Parse:accepted", "Parse:rejected", "Parse:base10", "Parse:base16", "Parse:base2", "Parse:base8", "Parse:binary", "Parse:decimal", "Parse:inf", "Parse:tie-up", "Parse:tie-down", "SetString:accepted", "UnmarshalText:rejected", "Scan:accepted"},
	},
	"C13": {
		id: "C13", models: []model{mcTextQ}, trace: "Trace_Core", batch: 4,
		gen:         func(g *gen.G, thor bool) []gen.Program { return gen.Format(g, n(thor, 1200, 30000)) },
		rule:        "Text/Append/String/MarshalText/Format of (a) exactly representable k/2^m values under ToNearestEven, for which strconv.FormatFloat / fmt.Sprintf on the float64 are logged as a second implementation of the layout specification, (b) zeros (also with a stale exponent) and infinities, (c) arbitrary Decimals with delicate digits at the requested position under all six modes; formats e,E,f,g,G,p,b x precisions -1..40; verbs e,E,f,F,g,G,v x flags + space 0 - x widths x precisions",
		assumptions: append(append([]string{}, commonAssumptions...), "%+v and the # flag are excluded (DESIGN 3.6); values within 47 of the top of the exponent range are excluded from explicit-precision formatting"),
		req:         []string{"Text:e", "Text:f", "Text:g", "Text:p", "Text:b", "Text:ref", "Format:ref", "Format:0", "Format:-", "Format:+", "Format:width", "Text:shortest", "Text:prec", "Text:zero", "Text:inf"},
	},
	"C14": {
		id: "C14", models: []model{mcSmall}, trace: "Trace_Core", batch: 4,
		gen:         func(g *gen.G, thor bool) []gen.Program { return gen.Conv(g, n(thor, 1500, 40000)) },
		rule:        "Int64/Uint64/Int/Rat/IsInt/MinPrec of Decimals around 2^63, 2^64, 10^19, 10^20, 10^38 with and without fractional parts (short, far 0..01, 9..9), arbitrary and special values; SetInt64/SetUint64/NewDecimal on all edge values and random ones; SetInt of integers up to 5000 digits incl. delicate digits after the precision and trailing zero words; SetRat with terminating, integer and non-terminating quotients and quotient ties; receiver precision 0 and > 0, six modes",
		assumptions: commonAssumptions,
		req:         []string{"Int64:limit", "Uint64:limit", "Int64:acc0", "Int64:acc-1", "Int64:acc1", "Uint64:acc1", "SetInt:prec0", "SetInt:precn", "SetRat:integer", "SetRat:fraction", "IsInt:TRUE", "IsInt:FALSE", "Rat:finite", "Rat:inf"},
	},
	"C15": {
		id: "C15", models: []model{mcSmall}, trace: "Trace_Core", batch: 4,
		gen:         func(g *gen.G, thor bool) []gen.Program { return gen.Float(g, n(thor, 1500, 40000)) },
		rule:        "SetFloat64 of bit patterns (all exponent fields, mantissas 0/1/2^52-1/random, subnormals, infinities, NaNs) with receiver precision 0, too small, and large enough for the full decimal expansion; SetFloat of big.Float values of 1..2000 bits; Float64/Float32 of Decimals constructed from the specification's side: exactly representable values, exact midpoints between adjacent floats, odd multiples of ulp/4096 (the double-rounding trigger), each also nudged just above/below, values far out of range, specials; Float into big.Float of precision 1..500",
		assumptions: append(append([]string{}, commonAssumptions...), "the harness decomposes float64/float32/*big.Float exactly (math.Float64bits, MantExp)", "SetFloat/Float error bound fixed at 64 ulp (the property says 'a few dozen')"),
		req:         []string{"SetFloat64:fin", "SetFloat64:nan", "SetFloat64:inf", "SetFloat64:zero", "SetFloat64:exact", "SetFloat64:rounded", "SetFloat:fin", "SetFloat:exact", "SetFloat:rounded", "Float64:fin", "Float64:inf", "Float64:zero", "Float64:subnormal", "Float32:fin", "Float:finite"},
	},
	"C16": {
		id: "C16", models: []model{mcSmall}, trace: "Trace_Core", batch: 4,
		gen:         func(g *gen.G, thor bool) []gen.Program { return gen.Cmp(g, n(thor, 400, 10000)) },
		rule:        "triples of Decimals (equal up to trailing zero words, differing in a far digit of mantissas of different length, neighbours, opposite signs, zeros, infinities, exponents at the int32 limits) compared in all 9 ordered pairs, with Sign/Signbit/IsZero/IsInf; the expected answer is the sign of the exact difference computed by the specification",
		assumptions: commonAssumptions,
		req:         []string{"Cmp:-1", "Cmp:0", "Cmp:1"},
	},
	"C17": {
		id: "C17", models: []model{mcGob}, trace: "Trace_Core", batch: 4,
		gen:         func(g *gen.G, thor bool) []gen.Program { return gen.Gob(g, n(thor, 1500, 30000)) },
		rule:        "GobEncode/GobDecode chains for values of 1..300 words (trailing zero words, all forms, inexact accuracies) x receivers (zero value, precision 0 with a mode, own precision and mode), the encoding/gob stream path, hand-made payloads, and valid encodings corrupted by a single bit flip (first 32 / last 8 bytes), byte overwrite of the attribute bytes, truncation at the start and at the end, extension, and mantissa words overwritten with values >= 10^19, zero or unnormalised; the encoder is validated against the specification's decoder, the decoder against WellFormedGob/DecodeGob; after every decode the receiver is used in an addition",
		assumptions: commonAssumptions,
		req:         []string{"GobRoundTrip:wellformed", "GobRoundTrip:prec0", "GobRoundTrip:precn", "GobMutate:corrupt-error", "GobMutate:wellformed", "GobDecode:corrupt-error", "GobStream", "GobEncode:finite"},
	},
	"C18": {
		id: "C18", trace: "Trace_Core", batch: 2,
		proofs: []string{"DecPoolAbs_proofs"},
		models: []model{{mod: "MC_Pool", quick: map[string]string{"NG": "2"}, thorough: map[string]string{"NG": "3"}},
			{mod: "MC_Pool", quick: map[string]string{"NG": "2", "EarlyPut": "TRUE"}, expectViolation: "NoMisuse"}},
		gen:         func(g *gen.G, thor bool) []gen.Program { return gen.Par(g, n(thor, 16, 400)) },
		race:        true,
		rule:        "k = 2..8 goroutines x GOMAXPROCS in {1,2,4,16} x garbage collections every 3/7 events x 1-3 iterations, each goroutine running 3-6 operations (Mul, Mul(x,x), Quo, Sqrt, Add/Sub, Cmp, Text, GobEncode, Float64, IsInt) on two shared operands of 600-4200 digits (Karatsuba scratch, basic and recursive long division) into its own receiver, under 8 threshold assignments; the scratch pool is the verif LIFO free list with buffers poisoned on get and put (a use after put corrupts the result deterministically); every goroutine event is validated against the sequential specification, ParEnd checks every register and validates the logged pool events against DecPool; the same programs also run in a -race, decimal_pure_go build (the race detector does not see assembly) where any race report fails the check",
		assumptions: append(append([]string{}, commonAssumptions...), "data-race freedom is established for the explored schedules only; TLC's exhaustiveness is over the pool model's interleavings"),
		req:         []string{"ParEnd", "PoolGet", "PoolPut", "Par:k2"},
	},
	"C19": {
		id: "C19", models: []model{mcContext}, trace: "Trace_Core", batch: 4,
		gen:         func(g *gen.G, thor bool) []gen.Program { return gen.Ctx(g, n(thor, 50, 1000), n(thor, 150, 300)) },
		rule:        "context sessions of 150-300 calls: Add/Sub/Mul/Quo/FMA/Sqrt/Neg/Abs/Set with receivers mostly distinct from the operands (and some aliased), zeros and infinities injected so that NaN-producing calls occur, Err() at random points, SetPrec/SetMode of the context, all the factories (New, NewInt64, NewUint64, NewInt, NewRat, NewFloat64, NewFloat, NewString, ParseDecimal), receivers whose own precision/mode differ from the context's, and calls with a nil operand (a panic that is not ErrNaN); the latch is a hidden variable of the specification, inferred by TLC from the history",
		assumptions: commonAssumptions,
		req:         []string{"Ctx.Add:latched", "Ctx.Mul:nan", "Ctx.Quo:nan", "Ctx.Err:TRUE", "Ctx.Err:FALSE", "Ctx.AddNilY:panic", "Ctx.Sqrt:distinct", "Ctx.FMA:distinct", "Ctx.Add:aliased", "Ctx.NewFloat64:fin", "Ctx.NewFloat:fin", "Ctx.NewString:accepted", "Ctx.ParseDecimal:accepted"},
	},
	"C20": {
		id: "C20", models: []model{mcSmall}, trace: "Trace_Core", batch: 4,
		gen:         func(g *gen.G, thor bool) []gen.Program { return gen.Raw(g, n(thor, 1500, 30000)) },
		rule:        "SetBitsExp with slices of 0..50 words (zero words high and low, unnormalised top word, all-zero), int64 exponents incl. +-2^31+-40 and the ends of int64, receiver precision 0 / smaller / larger than the slice; SetBitsExp with the receiver's own mantissa; BitsExp; MantExp/SetMantExp with offsets that land within 40 of the int32 limits",
		assumptions: commonAssumptions,
		req:         []string{"SetBitsExp:len0", "SetBitsExp:lenn", "SetBitsExp:prec0", "SetBitsExp:underflow", "SetBitsExp:overflow", "SetMantExp", "MantExp", "BitsExp:finite"},
	},
	"C02": {
		id: "C02", models: []model{mcRound}, trace: "Trace_Core", batch: 4,
		gen: func(g *gen.G, thor bool) []gen.Program {
			return append(append(gen.Round(g, n(thor, 1500, 40000)), gen.Ctx(g, n(thor, 8, 100), 150)...), gen.FMA(g, n(thor, 400, 8000))...)
		},
		rule:        "FMA calls of C03's driver (FMA is in C02's list: exact sums with a delicate tail after the precision, cancellation, pass-through addends); context sessions (the rounding operations reached through package context, operands that are inexact results of earlier calls); same programs as C01 with a different seed stream; the accuracy field is its own mismatch class (C02/acc) so that a C02 alarm is never a side effect of a value error",
		assumptions: commonAssumptions, req: roundReq,
	},
}
