package main

import (
	"time"

	"verif/harness/gen"
)

// model is one bounded TLC model of the (E) layer.
type model struct {
	mod      string
	quick    map[string]string // CONSTANT overrides for the quick tier
	thorough map[string]string
	qTimeout time.Duration
	tTimeout time.Duration
	args     []string
}

func (m model) timeout(thor bool) time.Duration {
	if thor {
		if m.tTimeout != 0 {
			return m.tTimeout
		}
		return 60 * time.Minute
	}
	if m.qTimeout != 0 {
		return m.qTimeout
	}
	return 10 * time.Minute
}

// check is everything vcheck needs to decide one property.
type check struct {
	id          string
	models      []model
	trace       string // trace specification module
	gen         func(g *gen.G, thor bool) []gen.Program
	batch       int // programs per TLC batch
	rule        string
	assumptions []string
	req         []string // coverage cells that a run must hit (else the run is vacuous: exit 2)
	reqThor     []string
}

func (c *check) required(thor bool) []string {
	if thor {
		return append(append([]string{}, c.req...), c.reqThor...)
	}
	return c.req
}

func n(thor bool, q, t int) int {
	if thor {
		return t
	}
	return q
}

var mcRound = model{mod: "MC_Round", quick: map[string]string{"NMax": "120", "PMax": "3"}, thorough: map[string]string{"NMax": "1100", "PMax": "3"}}
var mcSum = model{mod: "MC_Sum", quick: map[string]string{"NMax": "30", "PMax": "2", "GapMax": "9"}, thorough: map[string]string{"NMax": "110", "PMax": "2", "GapMax": "10"}}
var mcBigNat = model{mod: "MC_BigNat", quick: map[string]string{"Bound": "60", "NRand": "100", "MaxLen": "24"}, thorough: map[string]string{"Bound": "300", "NRand": "1000", "MaxLen": "30"}}

var commonAssumptions = []string{
	"the BigInteger accelerators of BigNat agree with their pure TLA+ definitions beyond the operands compared by MC_BigNat",
	"operand sizes, precisions (< 2^31) and exponent gaps are bounded by the generators (see rule)",
	"the observation function (public accessors BitsExp/Prec/Mode/Acc/Signbit/IsInf/IsZero/MinPrec/MantExp) reports the receiver's real state",
}

var roundReq = []string{"Add:tie-up", "Add:tie-down", "Add:carry", "Sub:fits", "Mul:up", "Mul:down", "Quo:exact", "Quo:up", "Quo:down",
	"Add:underflow", "Mul:overflow", "Mul:underflow", "Quo:overflow", "Quo:underflow", "Quo:tie-up", "Quo:tie-down", "Set:up", "SetPrec:down",
	"Add:stickyonly-up", "Add:stickyonly-down", "Sub:stickyonly-down"}

var checks = map[string]*check{
	"C01": {
		id: "C01", models: []model{mcBigNat, mcRound, mcSum}, trace: "Trace_Core", batch: 4,
		gen:         func(g *gen.G, thor bool) []gen.Program { return gen.Round(g, n(thor, 1500, 40000)) },
		rule:        "cases = Add/Sub/Mul/Quo/Set/SetPrec/Neg/Abs calls on operands built from adversarial digit patterns (ties, near-ties, all-nines carries, cancellation, exponent gaps around the precision, exact quotients by multi-word 9/0-run divisors, exponents within 60 of the int32 limits) x 6 modes x aliasing shapes x receiver histories; a case is non-trivial/distinct by its specification branch cell (operation x rounding branch x operand forms), counted by TLC in the trace specification's cov variable",
		assumptions: commonAssumptions, req: roundReq,
	},
	"C03": {
		id: "C03", models: []model{mcSum}, trace: "Trace_Core", batch: 4,
		gen:         func(g *gen.G, thor bool) []gen.Program { return gen.FMA(g, n(thor, 1500, 40000)) },
		rule:        "FMA calls: random triples, targeted exact sums x*y+u with delicate digits after the precision, massive cancellation (u = -(x*y) +- 1 ulp), u far above/below the product, products whose exponent leaves int32 while the sum stays inside, zero/infinite operands; x 6 modes x aliasing partitions of (z,x,y,u) x receiver histories; distinct by specification branch cell; the trace spec also classifies each finite case as same-as / differs-from Mul-then-Add",
		assumptions: commonAssumptions,
		req:         []string{"FMA:differs-from-mul-add", "FMA:same-as-mul-add", "FMA:tie-up", "FMA:tie-down", "FMA:fits", "FMA:special"},
	},
	"C04": {
		id: "C04", models: []model{}, trace: "Trace_Core", batch: 4,
		gen:         func(g *gen.G, thor bool) []gen.Program { return gen.Special(g, thor) },
		rule:        "complete enumeration of operation x operand classes {-Inf,-finite,-0,+0,+finite,+Inf}^k x six modes (x aliasing shapes, receiver precision 0 / > 0, finite magnitudes ordinary / near MinExp / near MaxExp); a case is distinct by operation x class tuple (cov cell)",
		assumptions: commonAssumptions,
	},
	"C02": {
		id: "C02", models: []model{mcRound}, trace: "Trace_Core", batch: 4,
		gen:         func(g *gen.G, thor bool) []gen.Program { return gen.Round(g, n(thor, 1500, 40000)) },
		rule:        "same programs as C01 with a different seed stream; the accuracy field is its own mismatch class (C02/acc) so that a C02 alarm is never a side effect of a value error",
		assumptions: commonAssumptions, req: roundReq,
	},
}
