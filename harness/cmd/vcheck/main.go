// vcheck is the orchestrator: for one property it runs the bounded TLC models (E), generates
// programs, executes them against the tree under test, validates the recorded traces against the
// TLA+ trace specification (V), reproduces every mismatch against the real code, classifies it
// (violation / known finding), and writes the evidence file.
//
//	vcheck <ID> [--tier quick|thorough]
//	vcheck replay <file>
//
// exit 0: property held on everything explored; 1: VIOLATION printed; 2: the run is void
// (build failure, TLC crash, timeout, trace not consumed, unreproducible mismatch).
package main

import (
	"bytes"
	"encoding/json"
	"fmt"
	"os"
	"os/exec"
	"path/filepath"
	"sort"
	"strings"
	"sync"
	"time"

	"verif/harness/gen"
	"verif/harness/run"
)

type M = map[string]any

// onDie removes the scratch directory when the run is abandoned (os.Exit skips deferred calls).
var onDie func()

func die(format string, a ...any) {
	fmt.Fprintf(os.Stderr, "vcheck: "+format+"\n", a...)
	if onDie != nil {
		onDie()
	}
	os.Exit(2)
}

func main() {
	if len(os.Args) < 2 {
		die("usage: vcheck <ID> [--tier quick|thorough] | replay <file>")
	}
	tier := ""
	var pos []string
	for i := 1; i < len(os.Args); i++ {
		switch a := os.Args[i]; {
		case a == "--tier" && i+1 < len(os.Args):
			tier = os.Args[i+1]
			i++
		case strings.HasPrefix(a, "--tier="):
			tier = strings.TrimPrefix(a, "--tier=")
		default:
			pos = append(pos, a)
		}
	}
	env, err := run.NewEnv(tier)
	if err != nil {
		die("%v", err)
	}
	code := 2
	func() {
		defer env.Close()
		onDie = env.Close
		switch pos[0] {
		case "dump":
			// dump <ID> <file>: write the generated programs (debugging aid)
			c, ok := checks[pos[1]]
			if !ok {
				die("unknown property %s", pos[1])
			}
			g := gen.New(env.Seed*1000003+int64(len(c.id)), env.Tier == "thorough")
			progs := c.gen(g, env.Tier == "thorough")
			if c.sim != nil {
				sp, err := simPrograms(env, c.sim, env.Tier == "thorough")
				if err != nil {
					die("%v", err)
				}
				progs = append(progs, sp...)
			}
			if err := writePrograms(pos[2], progs); err != nil {
				die("%v", err)
			}
			code = 0
		case "selftest":
			code = selftest(env)
		case "replay":
			if len(pos) < 2 {
				die("replay needs a file")
			}
			code = replay(env, pos[1])
		default:
			c, ok := checks[pos[0]]
			if !ok {
				die("unknown property %s", pos[0])
			}
			code = runCheck(env, c)
		}
	}()
	os.Exit(code)
}

// badEntry is one mismatch reported by the trace specification.
type badEntry struct {
	L    int    // 1-based event index in the batch
	PID  string // property id
	Kind string
	Dev  string // named deviation that explains it ("" if none)
}

type verdict struct {
	N   int              `json:"n"`
	Bad [][]any          `json:"bad"`
	Cov map[string]int64 `json:"cov"`
}

type batchResult struct {
	idx      int
	progs    []gen.Program
	events   int
	bad      []badEntry
	cov      map[string]int64
	states   int64
	evFile   string
	err      error
	sample   json.RawMessage
	progOf   []int // event index (0-based) -> program index in batch
	offOf    []int // event index -> step index within the program (0 = Reset)
	evLines  [][]byte
	hang     bool // the executor gave up on a library call that did not return
	wallTLC  float64
	wallExec float64
}

func writePrograms(path string, ps []gen.Program) error {
	f, err := os.Create(path)
	if err != nil {
		return err
	}
	defer f.Close()
	enc := json.NewEncoder(f)
	for _, p := range ps {
		if err := enc.Encode(p); err != nil {
			return err
		}
	}
	return nil
}

func readLines(path string) ([][]byte, error) {
	b, err := os.ReadFile(path)
	if err != nil {
		return nil, err
	}
	var out [][]byte
	for _, ln := range strings.Split(string(b), "\n") {
		if ln != "" {
			out = append(out, []byte(ln))
		}
	}
	return out, nil
}

// validate executes one batch of programs and validates the trace with TLC.
// tolerantObserver: Float64/Float32/Float go through the documented-as-naive conversion to big.Float, whose guard
// precision depends on the word size (the recorded double-rounding finding lives here): the two builds may return
// neighbouring floats for the same Decimal.
func tolerantObserver(line []byte) bool {
	var ev struct {
		Op string `json:"op"`
	}
	return json.Unmarshal(line, &ev) == nil && (ev.Op == "Float64" || ev.Op == "Float32" || ev.Op == "Float")
}

// tolerantOp reports whether the event is a conversion whose result the properties pin down only up to a
// tolerance, so that builds with different word sizes may differ.
func tolerantOp(line []byte) bool {
	var ev struct {
		Op   string `json:"op"`
		S    string `json:"s"`
		Base int    `json:"base"`
	}
	if json.Unmarshal(line, &ev) != nil {
		return false
	}
	switch ev.Op {
	case "SetFloat", "SetFloat64", "Ctx.NewFloat", "Ctx.NewFloat64":
		return true
	case "SetBitsExp", "SetBitsExpSelf":
		return true // a precision-0 receiver gets as many digits as the slice has words x digits per word
	case "Parse", "SetString", "UnmarshalText", "UnmarshalJSON", "ParseDecimal", "Scan", "Ctx.NewString", "Ctx.ParseDecimal":
		return strings.ContainsAny(ev.S, "pPxXbBoO") || ev.Base == 2 || ev.Base == 8 || ev.Base == 16
	}
	return false
}

// abstractEvent renders an event without its word-size dependent parts: every observed mantissa becomes its
// digit string (dw digits per word, least significant word first in the log) and the digests are dropped.
func abstractEvent(line []byte, dw int) string {
	var ev map[string]any
	if json.Unmarshal(line, &ev) != nil {
		return string(line)
	}
	delete(ev, "dg")
	objs := []any{}
	if post, ok := ev["post"].(map[string]any); ok {
		for _, o := range post {
			objs = append(objs, o)
		}
	}
	if ret, ok := ev["ret"].(map[string]any); ok {
		if ret["words"] != nil { // BitsExp
			objs = append(objs, ret)
		}
		delete(ret, "hex") // gob payloads are made of machine words
	}
	{
		for _, o := range objs {
			om, ok := o.(map[string]any)
			if !ok {
				continue
			}
			ws, _ := om["words"].([]any)
			var sb strings.Builder
			for i := len(ws) - 1; i >= 0; i-- {
				w, _ := ws[i].(string)
				if i < len(ws)-1 && len(w) < dw {
					sb.WriteString(strings.Repeat("0", dw-len(w)))
				}
				sb.WriteString(w)
			}
			om["words"] = strings.TrimRight(sb.String(), "0")
		}
	}
	out, _ := json.Marshal(ev)
	return string(out)
}

func validate(env *run.Env, bin string, traceMod string, idx int, progs []gen.Program, heapMB int, homeProperty string, others ...otherBuild) *batchResult {
	r := &batchResult{idx: idx, progs: progs}
	pf := filepath.Join(env.Scratch, fmt.Sprintf("b%d.prog.ndjson", idx))
	ef := filepath.Join(env.Scratch, fmt.Sprintf("b%d.ev.ndjson", idx))
	r.evFile = ef
	if r.err = writePrograms(pf, progs); r.err != nil {
		return r
	}
	t0 := time.Now()
	if err := env.Exec(bin, pf, ef, execTimeout(env)); err == run.ErrHang {
		r.hang = true // the events recorded before the hang are still validated
	} else if err != nil {
		r.err = err
		return r
	}
	r.wallExec = time.Since(t0).Seconds()
	lines, err := readLines(ef)
	if err != nil {
		r.err = err
		return r
	}
	r.evLines = lines
	r.events = len(lines)
	pi := -1
	off := 0
	for _, ln := range lines {
		if strings.Contains(string(ln[:min(len(ln), 400)]), `"op":"Reset"`) {
			pi++
			off = 0
		}
		r.progOf = append(r.progOf, pi)
		r.offOf = append(r.offOf, off)
		off++
	}
	// other build configurations: the event log must be identical, line for line (C07)
	var buildDiffs []badEntry
	only64 := false
	for _, p := range progs {
		only64 = only64 || p.Only64
	}
	for _, ob := range others {
		if only64 && strings.HasPrefix(ob.tag, "arch=") {
			continue
		}
		of := filepath.Join(env.Scratch, fmt.Sprintf("b%d.%s.ev.ndjson", idx, ob.tag))
		if err := env.Exec(ob.bin, pf, of, execTimeout(env)); err == run.ErrHang {
			// the other build hung too (or instead): its log is not compared; the default build's events and its own
			// hang policy decide this batch
			r.hang = true
			os.Remove(of)
			continue
		} else if err != nil {
			r.err = err
			return r
		}
		ol, err := readLines(of)
		if err != nil {
			r.err = err
			return r
		}
		// another word size: the logs are compared after abstraction (mantissa words -> digit string, no digests)
		abs := strings.HasPrefix(ob.tag, "arch=")
		skipProg := false // the rest of the current program is not compared (see tolerantOp)
		for i := 0; i < len(lines) || i < len(ol); i++ {
			same := i < len(lines) && i < len(ol) && string(lines[i]) == string(ol[i])
			if abs && i < len(lines) && bytes.Contains(lines[i][:min(len(lines[i]), 400)], []byte(`"op":"Reset"`)) {
				skipProg = false
			}
			if !same && abs && i < len(lines) && i < len(ol) {
				same = skipProg || abstractEvent(lines[i], 19) == abstractEvent(ol[i], 9) || bytes.Contains(ol[i], []byte(`"skip32":true`))
				if !same && tolerantObserver(lines[i]) {
					same = true // no register changes: only this event is left uncompared
				}
				if !same && tolerantOp(lines[i]) {
					// the property allows this conversion a tolerance (SetFloat: dozens of ulps, SetFloat64 and binary
					// literals: one ulp when inexact): two word sizes may legitimately differ, and the programs' states
					// diverge from here on
					same, skipProg = true, true
				}
			}
			if !same {
				pid := "C07"
				if abs {
					pid = homeProperty
				}
				buildDiffs = append(buildDiffs, badEntry{L: min(i, len(lines)-1) + 1, PID: pid, Kind: "build-diff:" + ob.tag})
				break
			}
		}
		os.Remove(of)
	}
	res, err := env.TLC(traceMod, nil, 1, heapMB, []string{"VERIF_TRACE=" + ef}, 40*time.Minute)
	if err != nil {
		r.err = err
		return r
	}
	r.wallTLC = res.WallS
	r.states = res.Generated
	if !res.OK || len(res.Verdicts) != 1 {
		r.err = fmt.Errorf("trace batch %d not consumed by %s (TLC ok=%v, verdicts=%d, violated=%q)\n%s", idx, traceMod, res.OK, len(res.Verdicts), res.Violated, errStr(res.Output))
		return r
	}
	var v verdict
	if err := json.Unmarshal([]byte(res.Verdicts[0]), &v); err != nil {
		r.err = fmt.Errorf("bad verdict: %v", err)
		return r
	}
	if v.N != len(lines) {
		r.err = fmt.Errorf("verdict covers %d events, trace has %d", v.N, len(lines))
		return r
	}
	r.cov = v.Cov
	for _, b := range v.Bad {
		e := badEntry{}
		if len(b) >= 3 {
			if f, ok := b[0].(float64); ok {
				e.L = int(f)
			}
			e.PID, _ = b[1].(string)
			e.Kind, _ = b[2].(string)
			if len(b) >= 4 {
				e.Dev, _ = b[3].(string)
			}
		}
		r.bad = append(r.bad, e)
	}
	r.bad = append(r.bad, buildDiffs...)
	sort.Slice(r.bad, func(i, j int) bool { return r.bad[i].L < r.bad[j].L })
	if len(lines) > 2 {
		r.sample = json.RawMessage(truncJSON(lines[min(len(lines)-1, 3+idx%5)]))
	}
	return r
}

func execTimeout(env *run.Env) time.Duration {
	if env.Tier == "thorough" {
		return 30 * time.Minute
	}
	return 4 * time.Minute
}

// simPrograms runs TLC in simulation mode on a state-machine module whose invariant prints every action
// label ("SIM {json}") and turns each behaviour into a program.
func simPrograms(env *run.Env, sp *simSpec, thor bool) ([]gen.Program, error) {
	num, depth := sp.qNum, sp.qDepth
	if thor {
		num, depth = sp.tNum, sp.tDepth
	}
	res, err := env.TLC(sp.mod, nil, 1, 3000, nil, 20*time.Minute, "-simulate", fmt.Sprintf("num=%d", num), "-depth", fmt.Sprint(depth), "-seed", fmt.Sprint(env.Seed))
	if err != nil {
		return nil, err
	}
	if res.Violated != "" {
		return nil, fmt.Errorf("simulation of %s violated %s", sp.mod, res.Violated)
	}
	var progs []gen.Program
	var cur *gen.Program
	for _, ln := range res.Prints {
		var rec struct {
			Lvl  int            `json:"lvl"`
			Step map[string]any `json:"step"`
		}
		if err := json.Unmarshal([]byte(ln), &rec); err != nil {
			return nil, fmt.Errorf("bad SIM line: %v", err)
		}
		if rec.Lvl <= 1 {
			continue
		}
		if rec.Lvl == 2 || cur == nil {
			// Only64: random walks over the extreme exponents add across gaps of 2^31 digits and more; the library
			// allocates a buffer that long (1-4 GB), which a 32-bit process cannot
			progs = append(progs, gen.Program{ID: fmt.Sprintf("sim-%d", len(progs)+1), Regs: []string{"r0", "r1", "r2"}, Only64: true})
			cur = &progs[len(progs)-1]
		}
		cur.Steps = append(cur.Steps, rec.Step)
	}
	if len(progs) == 0 {
		return nil, fmt.Errorf("simulation of %s printed no behaviour", sp.mod)
	}
	return progs, nil
}

// isPar reports whether the mismatching event lies inside a Par block (goroutines).
func isPar(r *batchResult, b badEntry) bool {
	ln := string(r.evLines[b.L-1])
	return strings.Contains(ln[:min(len(ln), 300)], `"op":"Pool`) || strings.Contains(ln, `"par":true`) || strings.Contains(ln[:min(len(ln), 300)], `"op":"ParEnd"`)
}

func truncJSON(b []byte) []byte {
	if len(b) <= 1500 {
		return b
	}
	s, _ := json.Marshal(string(b[:1500]) + "...(truncated)")
	return s
}

// errStr extracts TLC's first error report.
func errStr(s string) string {
	if i := strings.Index(s, "Error:"); i >= 0 {
		s = s[i:]
		if len(s) > 3000 {
			s = s[:3000]
		}
		return s
	}
	return tailStr(s, 3000)
}

func tailStr(s string, n int) string {
	if len(s) > n {
		return s[len(s)-n:]
	}
	return s
}

func min(a, b int) int {
	if a < b {
		return a
	}
	return b
}

// otherBuild is an executor built with another build-tag set.
type otherBuild struct{ tag, bin string }

// finding is an entry of known_findings.json.
type finding struct {
	Status    string   `json:"status"` // "open" (recorded finding) or "fixed"
	Property  string   `json:"property"`
	Also      []string `json:"also,omitempty"` // other properties whose checks see the same deviation
	Deviation string   `json:"deviation"`      // named deviation of the trace specification
	What      string   `json:"what"`
	Witness   any      `json:"witness"`
	Commit    string   `json:"commit,omitempty"`
}

func loadFindings(home string) []finding {
	var fs struct {
		Findings []finding `json:"findings"`
	}
	b, err := os.ReadFile(filepath.Join(home, "known_findings.json"))
	if err != nil {
		return nil
	}
	if err := json.Unmarshal(b, &fs); err != nil {
		die("known_findings.json: %v", err)
	}
	return fs.Findings
}

func knownDeviation(fs []finding, pid, dev string) *finding {
	if dev == "" {
		return nil
	}
	// a named deviation is computed by the trace specification for one specific event; it explains that event
	// whichever properties the event is attributed to (e.g. C15's finding seen inside a C18 goroutine block)
	for i := range fs {
		if fs[i].Status == "open" && fs[i].Deviation == dev {
			return &fs[i]
		}
	}
	return nil
}

type replayFile struct {
	Property string      `json:"property"`
	Kind     string      `json:"kind"`
	Trace    string      `json:"trace_spec"`
	Build    string      `json:"build"`
	Seed     int64       `json:"seed"`
	Tier     string      `json:"tier"`
	Step     int         `json:"step"` // index of the offending step in the program (0 = Reset)
	Program  gen.Program `json:"program"`
	Observed any         `json:"observed_event"`
	Note     string      `json:"note"`
}

// reproduce re-executes the program of a mismatching event in a fresh process and checks that the
// same event comes back. Returns the replay path.
func reproduce(env *run.Env, bin string, c *check, br *batchResult, b badEntry, n int) (string, bool, error) {
	ei := b.L - 1
	if ei < 0 || ei >= len(br.progOf) {
		return "", false, fmt.Errorf("bad event index %d", b.L)
	}
	prog := br.progs[br.progOf[ei]]
	off := br.offOf[ei]
	// re-execute the program only up to the offending step (later steps may not even terminate)
	short := prog
	if off <= len(prog.Steps) {
		short.Steps = prog.Steps[:off]
	}
	pf := filepath.Join(env.Scratch, fmt.Sprintf("repro%d.prog.ndjson", n))
	ef := filepath.Join(env.Scratch, fmt.Sprintf("repro%d.ev.ndjson", n))
	if err := writePrograms(pf, []gen.Program{short}); err != nil {
		return "", false, err
	}
	if err := env.Exec(bin, pf, ef, 10*time.Minute); err != nil && err != run.ErrHang {
		return "", false, err
	}
	lines, err := readLines(ef)
	if err != nil {
		return "", false, err
	}
	same := off < len(lines) && string(lines[off]) == string(br.evLines[ei])
	var obs any
	json.Unmarshal(truncJSON(br.evLines[ei]), &obs)
	dir := filepath.Join(env.Home, "replays")
	os.MkdirAll(dir, 0o755)
	path := filepath.Join(dir, fmt.Sprintf("%s-%s-%d-%d.json", c.id, env.Tier, env.Seed, n))
	rf := replayFile{Property: b.PID, Kind: b.Kind, Trace: c.trace, Build: "default", Seed: env.Seed, Tier: env.Tier, Step: off, Program: short, Observed: obs,
		Note: "re-run with: bin/vcheck replay " + path}
	buf, _ := json.MarshalIndent(rf, "", " ")
	if err := os.WriteFile(path, buf, 0o644); err != nil {
		return "", false, err
	}
	return path, same, nil
}

// word32: checks whose programs are free of word-level arguments are also executed by a GOARCH=386 build
// (32-bit words, base 10^9: different kernels, tables and word counts); its abstracted event log must
// equal that of the 64-bit build, which TLC validates against the specification.
var word32 = map[string]bool{"C01": true, "C02": true, "C03": true, "C04": true, "C05": true, "C09": true, "C10": true,
	"C11": true, "C12": true, "C13": true, "C14": true, "C15": true, "C16": true, "C19": true}

func runCheck(env *run.Env, c *check) int {
	start := time.Now()
	thor := env.Tier == "thorough"
	logf := func(format string, a ...any) {
		fmt.Fprintf(os.Stderr, "[%s %s seed=%d +%.0fs] "+format+"\n", append([]any{c.id, env.Tier, env.Seed, time.Since(start).Seconds()}, a...)...)
	}

	bin, err := env.BuildExec("vexec", "", false)
	if err != nil {
		die("%v", err)
	}
	logf("built executor from %s", env.Repo)
	var others []otherBuild
	var skippedBuilds []string
	builds := c.builds
	if word32[c.id] {
		builds = append(append([]string{}, builds...), "arch=386")
	}
	for _, tag := range builds {
		if tag == "" {
			continue
		}
		b, err := env.BuildExec("vexec_"+tag, tag, false)
		if err != nil {
			die("%v", err)
		}
		if strings.HasPrefix(tag, "arch=") {
			// can this machine run the other architecture's binaries at all? (an empty program list is a no-op)
			empty := filepath.Join(env.Scratch, "empty.prog.ndjson")
			os.WriteFile(empty, nil, 0o644)
			if err := env.Exec(b, empty, filepath.Join(env.Scratch, "empty.ev.ndjson"), time.Minute); err != nil {
				logf("build %s cannot be executed here (%v): the second word size is skipped in this run", tag, err)
				skippedBuilds = append(skippedBuilds, tag)
				continue
			}
		}
		others = append(others, otherBuild{tag, b})
	}

	// (E) bounded models
	var states, transitions int64
	var modelNotes []string
	for _, ob := range others {
		modelNotes = append(modelNotes, "second executor: "+ob.tag+" (event logs compared with the default build's)")
	}
	for _, t := range skippedBuilds {
		modelNotes = append(modelNotes, "second executor "+t+" NOT run: its binaries cannot be executed on this machine")
	}
	for _, m := range c.models {
		consts := m.quick
		if thor && m.thorough != nil {
			consts = m.thorough
		}
		res, err := env.TLC(m.mod, consts, 16, 8000, nil, m.timeout(thor), m.args...)
		if err != nil {
			die("(E) %s: %v", m.mod, err)
		}
		if m.expectViolation != "" {
			if res.Violated != m.expectViolation {
				die("(E) %s%v: expected invariant %s to be violated by the model of the defect, got %q", m.mod, consts, m.expectViolation, res.Violated)
			}
			modelNotes = append(modelNotes, fmt.Sprintf("%s%v: invariant %s violated as expected (non-vacuity)", m.mod, consts, m.expectViolation))
			continue
		}
		if !res.OK {
			die("(E) %s: the bounded model does not satisfy its properties (violated %q) - specification error, not a verdict about the code\n%s", m.mod, res.Violated, tailStr(res.Output, 4000))
		}
		states += res.Distinct
		transitions += res.Generated
		modelNotes = append(modelNotes, fmt.Sprintf("%s%v: %d distinct states, %d generated, depth %d, %.1fs", m.mod, consts, res.Distinct, res.Generated, res.Depth, res.WallS))
		logf("(E) %s ok: %d distinct states in %.1fs", m.mod, res.Distinct, res.WallS)
	}

	// (P) proofs: unbounded safety of small abstract specifications, by TLAPS
	for _, pm := range c.proofs {
		t0 := time.Now()
		if _, lerr := exec.LookPath("tlapm"); lerr != nil {
			modelNotes = append(modelNotes, pm+": NOT checked in this run (tlapm is not installed here); the TLC models and the trace validation do not depend on it")
			logf("(P) tlapm not found: %s not checked", pm)
			continue
		}
		nob, err := env.TLAPM(pm, 10*time.Minute)
		if err != nil {
			die("(P) %v", err)
		}
		modelNotes = append(modelNotes, fmt.Sprintf("%s: %d proof obligations checked by tlapm (holds for every number of goroutines and buffers)", pm, nob))
		logf("(P) %s: %d obligations proved in %.1fs", pm, nob, time.Since(t0).Seconds())
	}

	// (V) programs -> executor -> trace validation
	g := gen.New(env.Seed*1000003+int64(len(c.id)), thor)
	progs := c.gen(g, thor)
	nsim := 0
	if c.sim != nil {
		sp, err := simPrograms(env, c.sim, thor)
		if err != nil {
			die("(G) %v", err)
		}
		nsim = len(sp)
		progs = append(progs, sp...)
		logf("(G) %d behaviours of %s simulated by TLC become programs", nsim, c.sim.mod)
	}
	// regression programs of recorded findings that the generators cannot afford to draw at random
	// (findings/*.json, thorough tier only: e.g. a conversion at precision MaxPrec needs 8 GB)
	if thor {
		files, _ := filepath.Glob(filepath.Join(env.Home, "findings", "*.json"))
		sort.Strings(files)
		for _, f := range files {
			var rf replayFile
			buf, err := os.ReadFile(f)
			if err != nil || json.Unmarshal(buf, &rf) != nil {
				die("findings file %s unreadable", f)
			}
			if rf.Property == c.id {
				progs = append(progs, rf.Program)
				logf("regression program %s added", filepath.Base(f))
			}
		}
	}
	per := c.batch
	if per == 0 {
		per = 25
	}
	var batches [][]gen.Program
	for i := 0; i < len(progs); i += per {
		batches = append(batches, progs[i:min(i+per, len(progs))])
	}
	// -race build (pure Go kernels so that the detector sees every access): a race report is a C18 violation.
	// Runs concurrently with the trace validation below; the quick tier races only the first batches.
	raceBad := map[int]string{}
	raceHung := false
	var raceWG sync.WaitGroup
	if c.race {
		raceWG.Add(1)
		go func() {
			defer raceWG.Done()
			rb, err := env.BuildExec("vexec_race", "decimal_pure_go", true)
			if err != nil {
				die("%v", err)
			}
			nb := len(batches)
			if !thor && nb > 4 {
				nb = 4
			}
			var rmu sync.Mutex
			var rwg sync.WaitGroup
			rsem := make(chan struct{}, 4)
			for i := 0; i < nb; i++ {
				rwg.Add(1)
				go func(i int) {
					defer rwg.Done()
					rsem <- struct{}{}
					defer func() { <-rsem }()
					pf := filepath.Join(env.Scratch, fmt.Sprintf("r%d.prog.ndjson", i))
					if err := writePrograms(pf, batches[i]); err != nil {
						return
					}
					out, code := env.ExecRace(rb, pf, filepath.Join(env.Scratch, fmt.Sprintf("r%d.ev.ndjson", i)), execTimeout(env)*3)
					if code == 66 {
						rmu.Lock()
						raceBad[i] = out
						rmu.Unlock()
					} else if code == 3 {
						// the race build hung on a library call: no verdict about races from this batch; the ordinary
						// executor runs the same programs and its events (and hang policy) decide
						raceHung = true
					} else if code != 0 {
						rmu.Lock()
						raceBad[i] = "exit " + fmt.Sprint(code) + ": " + out
						rmu.Unlock()
					}
				}(i)
			}
			rwg.Wait()
		}()
	}
	results := make([]*batchResult, len(batches))
	sem := make(chan struct{}, 8)
	var wg sync.WaitGroup
	for i := range batches {
		wg.Add(1)
		go func(i int) {
			defer wg.Done()
			sem <- struct{}{}
			defer func() { <-sem }()
			results[i] = validate(env, bin, c.trace, i, batches[i], 3000, c.id, others...)
		}(i)
	}
	wg.Wait()

	logf("trace validation done")
	raceWG.Wait()
	logf("race runs done")
	findings := loadFindings(env.Home)
	cov := map[string]int64{}
	var events, tstates int64
	var samples []any
	accepted := 0
	violations := 0
	known := map[string]int{}
	other := map[string]int{}
	nrep := 0
	var vioLines []string
	for _, r := range results {
		if r.err != nil {
			die("(V) %v", r.err)
		}
		events += int64(r.events)
		tstates += r.states
		for k, v := range r.cov {
			cov[k] += v
		}
		if len(samples) < 4 && r.sample != nil {
			samples = append(samples, r.sample)
		}
		badProgs := map[int]bool{}
		seen := map[string]bool{}
		for _, b := range r.bad {
			if b.L >= 1 && b.L <= len(r.progOf) {
				badProgs[r.progOf[b.L-1]] = true
			}
			mine := b.PID == c.id || os.Getenv("VERIF_TRIAGE") != "" // triage mode: replay files for every mismatch
			if f := knownDeviation(findings, b.PID, b.Dev); f != nil {
				if mine {
					known[f.Deviation]++
				}
				continue
			}
			if !mine {
				other[b.PID+"/"+b.Kind]++
				continue
			}
			key := fmt.Sprintf("%d/%s", r.progOf[b.L-1], b.Kind)
			if seen[key] || nrep >= 10 { // one replay per program and kind, at most 10 per run
				violations++
				continue
			}
			seen[key] = true
			nrep++
			path, same, err := reproduce(env, bin, c, r, b, nrep)
			if err != nil {
				die("reproduce: %v", err)
			}
			if !same {
				// The re-executed event is not byte-identical (goroutine schedules; wrong results that depend on
				// uninitialised scratch memory). Re-run the program and let TLC judge each run: the violation counts
				// if the same property is violated again (at the same step for sequential programs).
				tries := 1
				if isPar(r, b) {
					tries = 5
				}
				for try := 0; try < tries && !same; try++ {
					rr := validate(env, bin, c.trace, 1000+nrep*10+try, []gen.Program{r.progs[r.progOf[b.L-1]]}, 3000, c.id)
					if rr.err != nil {
						die("reproduce: %v", rr.err)
					}
					for _, e := range rr.bad {
						if e.PID == b.PID && (isPar(r, b) || rr.offOf[e.L-1] == r.offOf[b.L-1]) {
							same = true
						}
					}
				}
			}
			if !same {
				die("mismatch at batch %d event %d (%s/%s) did not reproduce in a fresh process (non-deterministic?) - see %s", r.idx, b.L, b.PID, b.Kind, path)
			}
			violations++
			vioLines = append(vioLines, fmt.Sprintf("VIOLATION property=%s replay=%s kind=%s", b.PID, path, b.Kind))
		}
		accepted += len(r.progs) - len(badProgs)
	}

	for i, out := range raceBad {
		if !strings.Contains(out, "DATA RACE") {
			die("race build failed on batch %d: %s", i, tailStr(out, 1500))
		}
		dir := filepath.Join(env.Home, "replays")
		os.MkdirAll(dir, 0o755)
		path := filepath.Join(dir, fmt.Sprintf("%s-%s-%d-race%d.json", c.id, env.Tier, env.Seed, i))
		rf := M{"property": "C18", "kind": "race", "trace_spec": c.trace, "build": "-race,decimal_pure_go", "seed": env.Seed, "tier": env.Tier,
			"programs": batches[i], "race_report": tailStr(out, 6000), "note": "run the programs with a -race build of harness/cmd/vexec"}
		buf, _ := json.MarshalIndent(rf, "", " ")
		os.WriteFile(path, buf, 0o644)
		violations++
		vioLines = append(vioLines, fmt.Sprintf("VIOLATION property=C18 replay=%s kind=race", path))
	}

	// vacuity: required coverage cells
	var missing []string
	for _, k := range c.required(thor) {
		if cov[k] == 0 {
			missing = append(missing, k)
		}
	}

	distinct := 0
	for k, v := range cov {
		if v > 0 && !strings.HasPrefix(k, "Load") && k != "Reset" && !strings.HasPrefix(k, "mode:") {
			distinct++
		}
	}
	for dev, n := range known {
		f := knownDeviation(findings, c.id, dev)
		if f == nil {
			continue
		}
		fmt.Printf("KNOWN-FINDING: property=%s %s: %s (%d events in this run)\n", f.Property, dev, f.What, n)
	}
	var otherKeys []string
	for k := range other {
		otherKeys = append(otherKeys, k)
	}
	sort.Strings(otherKeys)
	for _, k := range otherKeys {
		fmt.Printf("NOTE other-property mismatch %s x%d (reported by that property's own check)\n", k, other[k])
	}
	for _, l := range vioLines {
		fmt.Println(l)
	}

	ev := M{
		"property_id": c.id, "tier": env.Tier, "seed": env.Seed, "level": "model_checking",
		"coverage": M{
			"states":                        states + tstates,
			"transitions":                   transitions + tstates,
			"traces_validated_against_impl": accepted,
			"samples":                       samples,
			"evaluations":                   events,
			"distinct_nontrivial":           distinct,
			"rule":                          c.rule,
			"programs":                      len(progs),
			"programs_from_tlc_simulation":  nsim,
			"bounded_models":                modelNotes,
			"trace_spec":                    c.trace,
			"coverage_cells":                cov,
			"known_finding_events":          known,
			"other_property_mismatches":     other,
			"exhaustive":                    false,
			"checker_cmd":                   "bin/vcheck " + c.id + " --tier " + env.Tier,
			"trusted_base":                  []string{"TLC 2026.09.04 (tla2tools.jar)", "java/src/BigNatOv.java (BigInteger accelerators, checked against the pure TLA+ definitions by MC_BigNat)", "harness/obs (observation function, public API only)", "harness/cmd/vexec (executor)", "Go toolchain"},
		},
		"assumptions": c.assumptions,
		"wall_s":      time.Since(start).Seconds(),
		"violations":  violations,
	}
	os.MkdirAll(filepath.Join(env.Home, "evidence"), 0o755)
	buf, _ := json.MarshalIndent(ev, "", " ")
	if err := os.WriteFile(filepath.Join(env.Home, "evidence", c.id+".json"), buf, 0o644); err != nil {
		die("evidence: %v", err)
	}
	logf("%d programs, %d events validated, %d cells, %d violations, %.1fs", len(progs), events, distinct, violations, time.Since(start).Seconds())
	if violations > 0 {
		return 1
	}
	if raceHung {
		die("a library call did not return within the step timeout in the -race build and no violation was found elsewhere")
	}
	for _, r := range results {
		if r.hang {
			die("a library call did not return within the step timeout in batch %d and no violation was found in the events recorded before it (slow operation or a hang: inspect the programs with bin/vcheck dump)", r.idx)
		}
	}
	if len(missing) > 0 {
		fmt.Fprintf(os.Stderr, "vcheck: vacuous run: required coverage cells never hit: %v\n", missing)
		return 2
	}
	return 0
}

func replay(env *run.Env, path string) int {
	b, err := os.ReadFile(path)
	if err != nil {
		die("%v", err)
	}
	var rf replayFile
	if err := json.Unmarshal(b, &rf); err != nil {
		die("%v", err)
	}
	bin, err := env.BuildExec("vexec", "", false)
	if err != nil {
		die("%v", err)
	}
	var others []otherBuild
	if strings.HasPrefix(rf.Kind, "build-diff:") { // the mismatch is between two builds: run both
		tag := strings.TrimPrefix(rf.Kind, "build-diff:")
		ob, err := env.BuildExec("vexec_other", tag, false)
		if err != nil {
			die("%v", err)
		}
		others = append(others, otherBuild{tag, ob})
	}
	r := validate(env, bin, rf.Trace, 0, []gen.Program{rf.Program}, 3000, rf.Property, others...)
	if r.err != nil {
		die("%v", r.err)
	}
	n := 0
	for _, e := range r.bad {
		fmt.Printf("mismatch at step %d: property=%s kind=%s %s\n", r.offOf[e.L-1], e.PID, e.Kind, e.Dev)
		if e.PID == rf.Property {
			n++
		}
	}
	if n > 0 {
		fmt.Printf("VIOLATION property=%s replay=%s\n", rf.Property, path)
		return 1
	}
	fmt.Println("replay: no mismatch for property", rf.Property)
	return 0
}

// selftest demonstrates the binding between the recorded traces and the specification: a valid trace is
// accepted; the same trace with ONE logged field corrupted (a mantissa digit, the exponent, the accuracy, the
// precision, the mode, a word at the base, an observer's return value) or one event deleted is rejected at
// (or right after) that event. Exit 0 if every corruption is caught, 2 otherwise.
func selftest(env *run.Env) int {
	bin, err := env.BuildExec("vexec", "", false)
	if err != nil {
		die("%v", err)
	}
	g := gen.New(env.Seed, false)
	progs := gen.Round(g, 60)
	progs = append(progs, gen.Cmp(g, 10)...)
	base := validate(env, bin, "Trace_Core", 0, progs, 3000, "")
	if base.err != nil {
		die("selftest: %v", base.err)
	}
	if len(base.bad) != 0 {
		die("selftest: the unmodified trace is not accepted (%d mismatches)", len(base.bad))
	}
	type corruption struct {
		name string
		op   string // event to corrupt
		f    func(ev map[string]any) bool
	}
	post := func(ev map[string]any, reg string) map[string]any {
		p, _ := ev["post"].(map[string]any)
		o, _ := p[reg].(map[string]any)
		return o
	}
	finiteZ := func(ev map[string]any) map[string]any {
		z, _ := ev["z"].(string)
		o := post(ev, z)
		if o == nil || o["form"] != "finite" {
			return nil
		}
		return o
	}
	cs := []corruption{
		{"one mantissa digit", "Mul", func(ev map[string]any) bool {
			o := finiteZ(ev)
			if o == nil {
				return false
			}
			ws := o["words"].([]any)
			w := []byte(ws[len(ws)-1].(string))
			if len(w) != 19 {
				return false
			}
			if w[1] == '9' {
				w[1] = '8'
			} else {
				w[1]++
			}
			ws[len(ws)-1] = string(w)
			o["minprec"] = o["minprec"] // unchanged: the getter now disagrees or the value is wrong
			return true
		}},
		{"exponent", "Add", func(ev map[string]any) bool {
			o := finiteZ(ev)
			if o == nil {
				return false
			}
			o["exp"] = o["exp"].(float64) + 1
			o["mantexp"] = o["mantexp"].(float64) + 1
			return true
		}},
		{"accuracy", "Quo", func(ev map[string]any) bool {
			o := finiteZ(ev)
			if o == nil {
				return false
			}
			if o["acc"].(float64) == 0 {
				o["acc"] = 1.0
			} else {
				o["acc"] = 0.0
			}
			return true
		}},
		{"precision", "Sub", func(ev map[string]any) bool {
			o := finiteZ(ev)
			if o == nil {
				return false
			}
			o["prec"] = o["prec"].(float64) + 1
			return true
		}},
		{"rounding mode", "Mul", func(ev map[string]any) bool {
			o := finiteZ(ev)
			if o == nil {
				return false
			}
			o["mode"] = float64((int(o["mode"].(float64)) + 1) % 6)
			return true
		}},
		{"a word equal to the base", "Add", func(ev map[string]any) bool {
			o := finiteZ(ev)
			if o == nil {
				return false
			}
			ws := o["words"].([]any)
			ws[0] = "10000000000000000000"
			return true
		}},
		{"an operand changed behind the call", "Quo", func(ev map[string]any) bool {
			x, _ := ev["x"].(string)
			z, _ := ev["z"].(string)
			o := post(ev, x)
			if o == nil || x == z {
				return false
			}
			o["neg"] = !(o["neg"].(bool))
			return true
		}},
		{"Cmp result", "Cmp", func(ev map[string]any) bool {
			r := ev["ret"].(map[string]any)
			v := r["v"].(float64)
			if v == 0 {
				r["v"] = 1.0
			} else {
				r["v"] = -v
			}
			return true
		}},
	}
	failed := 0
	for ci, c := range cs {
		// corrupt the first suitable event after the first third of the trace
		lines := make([][]byte, len(base.evLines))
		copy(lines, base.evLines)
		at := -1
		for i := len(lines) / 3; i < len(lines); i++ {
			var ev map[string]any
			if json.Unmarshal(lines[i], &ev) != nil || ev["op"] != c.op || ev["out"] != "ok" {
				continue
			}
			if c.f(ev) {
				b, _ := json.Marshal(ev)
				lines[i] = b
				at = i
				break
			}
		}
		if at < 0 {
			fmt.Printf("selftest: %-36s no suitable event\n", c.name)
			failed++
			continue
		}
		bad, err := validateLines(env, "Trace_Core", 100+ci, lines)
		hit := false
		for _, b := range bad {
			if b.L == at+1 {
				hit = true
			}
		}
		if err != nil || !hit {
			fmt.Printf("selftest: %-36s NOT caught at event %d (err=%v, %d mismatches)\n", c.name, at+1, err, len(bad))
			failed++
		} else {
			fmt.Printf("selftest: %-36s caught at event %d: %v\n", c.name, at+1, bad[0])
		}
	}
	// a deleted event: the next event that names the skipped receiver no longer matches the model state
	{
		lines := make([][]byte, 0, len(base.evLines))
		del := -1
		for i, ln := range base.evLines {
			if del < 0 && i > len(base.evLines)/3 && strings.Contains(string(ln[:min(len(ln), 300)]), `"op":"Load"`) {
				del = i
				continue
			}
			lines = append(lines, ln)
		}
		bad, err := validateLines(env, "Trace_Core", 200, lines)
		if err != nil || len(bad) == 0 {
			fmt.Printf("selftest: %-36s NOT caught (err=%v)\n", "one event deleted", err)
			failed++
		} else {
			fmt.Printf("selftest: %-36s caught (deleted event %d, first mismatch at %d: %s/%s)\n", "one event deleted", del+1, bad[0].L, bad[0].PID, bad[0].Kind)
		}
	}
	if failed > 0 {
		return 2
	}
	fmt.Println("selftest: every corruption of the recorded trace is rejected by the specification")
	return 0
}

// validateLines runs the trace specification on the given event lines.
func validateLines(env *run.Env, traceMod string, idx int, lines [][]byte) ([]badEntry, error) {
	ef := filepath.Join(env.Scratch, fmt.Sprintf("st%d.ev.ndjson", idx))
	if err := os.WriteFile(ef, append(bytesJoin(lines), '\n'), 0o644); err != nil {
		return nil, err
	}
	res, err := env.TLC(traceMod, nil, 1, 3000, []string{"VERIF_TRACE=" + ef}, 10*time.Minute)
	if err != nil {
		return nil, err
	}
	if !res.OK || len(res.Verdicts) != 1 {
		return nil, fmt.Errorf("trace not consumed: %s", errStr(res.Output))
	}
	var v verdict
	if err := json.Unmarshal([]byte(res.Verdicts[0]), &v); err != nil {
		return nil, err
	}
	var out []badEntry
	for _, b := range v.Bad {
		e := badEntry{}
		if f, ok := b[0].(float64); ok {
			e.L = int(f)
		}
		e.PID, _ = b[1].(string)
		e.Kind, _ = b[2].(string)
		out = append(out, e)
	}
	sort.Slice(out, func(i, j int) bool { return out[i].L < out[j].L })
	return out, nil
}

func bytesJoin(lines [][]byte) []byte {
	var b []byte
	for i, l := range lines {
		if i > 0 {
			b = append(b, '\n')
		}
		b = append(b, l...)
	}
	return b
}
