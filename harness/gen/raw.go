package gen

import (
	"strconv"
	"strings"
)

// word returns a 64-bit decimal word (< 10^19) as a string, from an adversarial alphabet.
func (g *G) word() string {
	switch g.R.Intn(8) {
	case 0:
		return "0"
	case 1:
		return "9999999999999999999"
	case 2:
		return "1"
	case 3:
		return "1000000000000000000"
	case 4:
		return "5000000000000000000"
	case 5:
		return strconv.FormatUint(uint64(g.R.Int63n(1000)), 10)
	default:
		s := g.Digits(1 + g.R.Intn(19))
		return strings.TrimLeft(s, "0") + ""
	}
}

// rawExp picks an int64 exponent for SetBitsExp (as a string).
func (g *G) rawExp(nwords int) string {
	switch g.R.Intn(10) {
	case 0:
		return "0"
	case 1:
		return itoa(int64(g.R.Intn(5) - 2))
	case 2:
		return itoa(2147483647 + int64(g.R.Intn(81)-40))
	case 3:
		return itoa(-2147483648 + int64(g.R.Intn(81)-40))
	case 4:
		return itoa(-9223372036854775808 + int64(g.R.Intn(40*(nwords+1))))
	case 5:
		return itoa(9223372036854775807 - int64(g.R.Intn(40*(nwords+1))))
	case 6:
		return itoa(int64(19*nwords) + int64(g.R.Intn(5)-2) + int64(g.Pick(0, 2147483647, -2147483648)))
	default:
		return itoa(g.Exp())
	}
}

// Raw generates the C20 programs: SetBitsExp / BitsExp / MantExp / SetMantExp.
func Raw(g *G, n int) []Program {
	var out []Program
	for i := 0; i < n; i++ {
		switch k := g.R.Intn(100); {
		case k < 55: // SetBitsExp with a new slice
			nw := g.Pick(0, 1, 1, 2, 2, 3, 4, 5, 8, 20, 50)
			ws := make([]any, nw)
			for j := range ws {
				ws[j] = g.word()
			}
			switch g.R.Intn(5) {
			case 0: // leading (most significant) zero words
				for j := nw - 1; j >= 0 && j >= nw-1-g.R.Intn(3); j-- {
					ws[j] = "0"
				}
			case 1: // low zero words
				for j := 0; j < nw && j <= g.R.Intn(3); j++ {
					ws[j] = "0"
				}
			case 2: // all zero
				if g.R.Intn(3) == 0 {
					for j := range ws {
						ws[j] = "0"
					}
				}
			}
			z := g.PickS("r0", "r1", "r2")
			switch g.R.Intn(4) {
			case 0:
				g.Emit(M{"op": "New", "z": z}) // precision 0
			case 1:
				g.Receiver(z, 0, g.Mode())
			default:
				g.Receiver(z, g.Prec(), g.Mode())
			}
			g.Emit(M{"op": "SetBitsExp", "z": z, "words": ws, "e": g.rawExp(nw)})
			g.Emit(M{"op": "BitsExp", "x": z})
		case k < 65: // SetBitsExp with the receiver's own mantissa (the other allowed source)
			g.Load("r0", g.Bool(), g.Digits(g.Len()), g.Exp(), 0, g.Mode())
			if g.Bool() {
				g.Emit(M{"op": "SetPrec", "z": "r0", "p": g.Prec()})
			}
			g.Emit(M{"op": "SetBitsExpSelf", "z": "r0", "e": g.rawExp(1)})
			g.Emit(M{"op": "BitsExp", "x": "r0"})
		default: // MantExp / SetMantExp round trips with offsets near the int32 limits
			e := g.Exp()
			if g.Bool() {
				e = g.ExtremeExp()
			}
			switch g.R.Intn(6) {
			case 0:
				g.LoadSpecial("r0", g.PickS("zero", "inf"), g.Bool(), g.Pick(0, 5), g.Mode())
			default:
				g.Load("r0", g.Bool(), g.Digits(g.Len()), e, 0, g.Mode())
			}
			g.Receiver("r1", g.Prec(), g.Mode())
			mant := g.PickS("r1", "r1", "r0", "nil")
			g.Emit(M{"op": "MantExp", "x": "r0", "z": mant})
			off := int64(g.Pick(0, 1, -1, 40, -40))
			var d int64
			switch g.R.Intn(5) {
			case 4: // any int is a legal argument: the ends of int64, where exponent + offset wraps
				d = g.PickI64(9223372036854775807, -9223372036854775808, 9223372036854775807-int64(g.R.Intn(50)), -9223372036854775808+int64(g.R.Intn(50)),
					9223372036854775807-2147483648, -9223372036854775808+2147483647, 4294967296, -4294967296, 4294967295, -4294967295)
			case 0:
				d = 2147483647 - e + off
			case 1:
				d = -2147483648 - e + off
			case 2:
				d = off
			default:
				d = g.Exp()
			}
			src := "r0"
			if mant == "r1" && g.Bool() {
				src = "r1"
			}
			g.Emit(M{"op": "SetMantExp", "z": g.PickS("r2", "r2", src), "x": src, "e": itoa(d)})
			g.Emit(M{"op": "BitsExp", "x": "r2"})
		}
		if g.Pending() >= 150 {
			out = append(out, g.Flush("raw"))
		}
	}
	if g.Pending() > 0 {
		out = append(out, g.Flush("raw"))
	}
	return out
}
