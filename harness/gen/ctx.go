package gen

import "strconv"

// Ctx generates the C19 programs: long context sessions mixing valid and NaN-producing argument
// classes, Err() at random points, and panics that are not ErrNaN.
func Ctx(g *G, nprog, steps int) []Program {
	var out []Program
	regs := []string{"r0", "r1", "r2", "r3"}
	for i := 0; i < nprog; i++ {
		cp := g.Pick(0, 1, 2, 5, 16, 34, g.Prec())
		g.Emit(M{"op": "Ctx.New", "c": "c0", "p": cp, "m": g.Mode()})
		// before anything can latch the context: every wrapper once on operands with more digits than the context holds,
		// receiver distinct from and equal to the operand (c.Set(z, z) is the idiom for rounding a value in place)
		{
			n := cp
			if n == 0 {
				n = 34
			}
			for _, op := range []string{"Set", "Set", "Neg", "Abs", "Add", "Mul"} {
				g.Load("r0", g.Bool(), g.Digits(n+1+g.R.Intn(8)), int64(g.R.Intn(9)-4), 0, g.Mode())
				g.Load("r1", g.Bool(), g.Digits(n+1+g.R.Intn(8)), int64(g.R.Intn(9)-4), 0, g.Mode())
				z := g.PickS("r0", "r2")
				if op == "Set" || op == "Neg" || op == "Abs" {
					g.Emit(M{"op": "Ctx." + op, "c": "c0", "z": z, "x": "r0"})
				} else {
					g.Emit(M{"op": "Ctx." + op, "c": "c0", "z": "r2", "x": "r0", "y": "r1"})
				}
			}
		}
		for _, r := range regs[:3] {
			if g.R.Intn(3) == 0 {
				g.loadClass(r, classes[g.R.Intn(6)], 0)
			} else {
				g.Load(r, g.Bool(), g.Digits(1+g.R.Intn(30)), int64(g.R.Intn(21)-10), g.Pick(0, 40, g.Prec()), g.Mode())
			}
		}
		for s := 0; s < steps; s++ {
			// the receiver is usually distinct from the operands (the case C19 constrains)
			perm := g.R.Perm(4)
			z, x, y, u := regs[perm[0]], regs[perm[1]], regs[perm[2]], regs[perm[3]]
			if g.R.Intn(6) == 0 {
				x = z
			}
			if g.R.Intn(8) == 0 {
				y = x
			}
			switch k := g.R.Intn(100); {
			case k < 34:
				g.Emit(M{"op": "Ctx." + g.PickS("Add", "Sub", "Mul", "Quo"), "c": "c0", "z": z, "x": x, "y": y})
			case k < 40:
				g.Emit(M{"op": "Ctx.FMA", "c": "c0", "z": z, "x": x, "y": y, "u": u})
			case k < 46:
				g.Emit(M{"op": "Ctx.Sqrt", "c": "c0", "z": z, "x": x})
			case k < 56:
				g.Emit(M{"op": "Ctx." + g.PickS("Neg", "Abs", "Set"), "c": "c0", "z": z, "x": x})
			case k < 66:
				g.Emit(M{"op": "Ctx.Err", "c": "c0"})
			case k < 70:
				g.Emit(M{"op": "Ctx.SetPrec", "c": "c0", "p": g.Pick(0, 1, 3, 7, 20, 34, 50)})
			case k < 74:
				g.Emit(M{"op": "Ctx.SetMode", "c": "c0", "m": g.Mode()})
			case k < 79: // NaN makers: zeros and infinities
				g.loadClass(g.PickS(regs...), g.PickS("+0", "-0", "+inf", "-inf"), 0)
			case k < 84:
				d := g.Digits(1 + g.R.Intn(40))
				if g.R.Intn(3) == 0 {
					// much more precise than the context, the only other non-zero digit far down in the low words: the context's
					// rounding must still see it (sticky), whatever shortcut the operation takes with a long operand
					d = g.Digits(1+g.R.Intn(5)) + zeros(g.Pick(38, 57, 60, 95, 120)) + g.PickS("1", "4", "5", "9")
				}
				g.Load(g.PickS(regs...), g.Bool(), d, int64(g.R.Intn(21)-10), g.Pick(0, 50), g.Mode())
			case k < 87:
				g.Emit(M{"op": "Ctx.NewInt64", "c": "c0", "z": z, "i": itoa(g.R.Int63n(2000000) - 1000000)})
			case k < 89:
				g.Emit(M{"op": "Ctx.NewUint64", "c": "c0", "z": z, "i": g.PickS("0", "7", "18446744073709551615", "12345678901234567890")})
			case k < 91:
				g.Emit(M{"op": "Ctx.NewInt", "c": "c0", "z": z, "i": g.PickS("0", "-"+g.Digits(30), g.Digits(50))})
			case k < 93:
				g.Emit(M{"op": "Ctx.NewRat", "c": "c0", "z": z, "num": g.PickS("0", "1", "-22", g.Digits(20)), "den": g.PickS("1", "3", "7", "8", g.Digits(10))})
			case k < 96:
				switch g.R.Intn(5) {
				case 0:
					g.Emit(M{"op": "Ctx.NewDec", "c": "c0", "z": z})
				case 1:
					bits := g.f64bits()
					if g.R.Intn(4) == 0 {
						bits = 0x7ff8000000000001 // NaN: the one factory argument that "would produce a NaN"
					}
					g.Emit(M{"op": "Ctx.NewFloat64", "c": "c0", "z": z, "bits": strconv.FormatUint(bits, 10)})
				case 2:
					s := M{"op": "Ctx.NewFloat", "c": "c0", "z": z}
					g.bigFloatArgs(s, g.Pick(1, 24, 53, 64, 100, 1+g.R.Intn(200)))
					g.Emit(s)
				case 3:
					lit := g.randLiteral(0)
					if g.R.Intn(4) == 0 {
						lit = g.mutate(lit)
					}
					if isPlainASCII(lit) {
						g.Emit(M{"op": "Ctx.NewString", "c": "c0", "z": z, "s": lit})
					}
				default:
					base := g.Pick(0, 0, 10, 2, 8, 16)
					lit := g.randLiteral(base)
					if g.R.Intn(4) == 0 {
						lit = g.mutate(lit)
					}
					if isPlainASCII(lit) {
						g.Emit(M{"op": "Ctx.ParseDecimal", "c": "c0", "z": z, "s": lit, "base": base})
					}
				}
			case k < 97:
				g.Emit(M{"op": "Ctx.AddNilY", "c": "c0", "z": z, "x": x})
			case k < 99:
				g.Emit(M{"op": "SetPrec", "z": z, "p": g.Pick(0, 2, 60)}) // receivers whose own precision differs from the context's
			default:
				g.Emit(M{"op": "SetMode", "z": z, "m": g.Mode()})
			}
		}
		g.Emit(M{"op": "Ctx.Err", "c": "c0"})
		g.Emit(M{"op": "Ctx.Err", "c": "c0"})
		p := g.Flush("ctx")
		p.Ctxs = []string{"c0"}
		out = append(out, p)
	}
	return out
}
