package gen

import "math/big"

// fmaShape picks an aliasing partition of (z, x, y, u) over registers r0 (x), r1 (y), r3 (u), r2 (fresh z).
func (g *G) fmaShape() (z, x, y, u string) {
	x, y, u = "r0", "r1", "r3"
	switch g.R.Intn(10) {
	case 0:
		y = "r0"
	case 1:
		u = "r0"
	case 2:
		u = "r1"
	case 3:
		y, u = "r0", "r0"
	}
	z = g.PickS("r2", "r2", "r2", x, y, u)
	return
}

// FMA generates the C03 programs.
func FMA(g *G, n int) []Program {
	var out []Program
	for i := 0; i < n; i++ {
		p, m := g.Prec(), g.Mode()
		distinct := false // x, y, u in three different registers
		g.SawExtreme = false
		switch k := g.R.Intn(100); {
		case k < 25: // random operands
			e1, e2 := g.Exp(), g.Exp()
			if e1 > 1000000 || e1 < -1000000 {
				e2 = int64(g.R.Intn(60) - 30)
			} else if e2 > 1000000 || e2 < -1000000 {
				e1 = int64(g.R.Intn(60) - 30)
			}
			g.Load("r0", g.Bool(), g.Digits(g.Len()), e1, 0, g.Mode())
			g.Load("r1", g.Bool(), g.Digits(g.Len()), e2, 0, g.Mode())
			// u near the product's magnitude
			g.Load("r3", g.Bool(), g.Digits(g.Len()), e1+e2+int64(g.R.Intn(41)-20), 0, g.Mode())
		case k < 60: // targeted: x*y + u = R exactly, with a delicate tail after p digits
			R := bigOf(g.targetResult(p))
			x := bigOf(g.Digits(1 + g.R.Intn(30)))
			y := bigOf(g.Digits(1 + g.R.Intn(30)))
			prod := new(big.Int).Mul(x, y)
			// scale R so that it is comparable to or larger than the product
			sh := int64(0)
			if g.Bool() {
				for R.Cmp(prod) < 0 {
					R.Mul(R, big.NewInt(10))
					sh++
				}
			}
			u := new(big.Int).Sub(R, prod)
			uneg := u.Sign() < 0
			u.Abs(u)
			if u.Sign() == 0 {
				u.SetInt64(1)
			}
			e := g.Exp()
			xneg := g.Bool()
			g.LoadInt("r0", xneg, x, e, 0, g.Mode())
			g.LoadInt("r1", false, y, 0, 0, g.Mode())
			g.LoadInt("r3", uneg != xneg, u, e, 0, g.Mode())
		case k < 75: // massive cancellation: u = -(x*y) + tiny
			x := bigOf(g.Digits(g.Len()))
			y := bigOf(g.Digits(1 + g.R.Intn(40)))
			prod := new(big.Int).Mul(x, y)
			d := big.NewInt(int64(g.R.Intn(3) - 1)) // -1, 0, 1 units in the last place of the product
			u := new(big.Int).Add(prod, d)
			e := g.Exp()
			g.LoadInt("r0", false, x, e, 0, g.Mode())
			g.LoadInt("r1", false, y, 0, 0, g.Mode())
			g.LoadInt("r3", true, u, e, 0, g.Mode())
		case k < 79: // u carries an inexact accuracy from its own history, the product cancels it exactly, the receiver is u
			g.Load("r3", g.Bool(), g.Digits(8+g.R.Intn(30)), g.Exp(), 0, g.Mode())
			g.Emit(M{"op": "SetMode", "z": "r3", "m": g.Pick(4, 4, m)})
			g.Emit(M{"op": "SetPrec", "z": "r3", "p": 2 + g.R.Intn(6)}) // rounds: Below or Above stays behind
			g.Emit(M{"op": "Copy", "z": "r0", "x": "r3"})
			g.Load("r1", true, "1", 1, 0, g.Mode())
			g.Emit(M{"op": "FMA", "z": "r3", "x": "r0", "y": "r1", "u": "r3"})
			if g.Pending() >= 120 {
				out = append(out, g.Flush("fma"))
			}
			continue
		case k < 82: // an "exact" operand: precision MaxPrec (the sum of the operands' precisions does not fit 32 bits)
			g.Load("r0", g.Bool(), g.Digits(1+g.R.Intn(6)), int64(g.R.Intn(7)-3), 0, g.Mode())
			g.Emit(M{"op": "SetPrecMax", "z": "r0"})
			g.Load("r1", g.Bool(), g.Digits(1+g.R.Intn(6)), int64(g.R.Intn(7)-3), 0, g.Mode())
			g.Load("r3", g.Bool(), g.Digits(1+g.R.Intn(6)), int64(g.R.Intn(7)-3), 0, g.Mode())
			if g.Bool() {
				g.Emit(M{"op": "SetPrecMax", "z": g.PickS("r1", "r3")})
			}
			p = 1 + g.R.Intn(6)
		case k < 88: // u far above / far below the product (sticky only)
			lx, ly := 1+g.R.Intn(p+3), 1+g.R.Intn(p+3)
			e := g.Exp()
			gap := int64(g.Pick(p, p+1, p+2, 2*p+3, lx+ly+2, 60, 300))
			if g.Bool() {
				gap = -gap
			}
			g.Load("r0", g.Bool(), g.Digits(lx), e, 0, g.Mode())
			g.Load("r1", g.Bool(), g.Digits(ly), 0, 0, g.Mode())
			g.Load("r3", g.Bool(), g.Digits(1+g.R.Intn(p+3)), e+gap, 0, g.Mode())
		case k < 94: // the product's exponent leaves the int32 range while x*y+u stays inside (D17 class)
			distinct = true // (u = y or u = x would pair an operand at the end of the range with one in the middle: a 2^31-digit alignment)
			top := g.Bool()
			var e1 int64 = 2147483647 - int64(g.R.Intn(3))
			if !top {
				e1 = -2147483648 + int64(g.R.Intn(3))
			}
			g.Load("r0", g.Bool(), g.Digits(1+g.R.Intn(4)), e1, 0, g.Mode())
			if top {
				g.Load("r1", g.Bool(), g.Digits(1+g.R.Intn(3)), int64(g.Pick(1, 2, 3)), 0, g.Mode())
			} else {
				g.Load("r1", g.Bool(), g.Digits(1+g.R.Intn(3)), int64(g.Pick(0, -1, -2)), 0, g.Mode())
			}
			g.Load("r3", g.Bool(), g.Digits(1+g.R.Intn(6)), e1-int64(g.R.Intn(4)), 0, g.Mode())
		default: // zero / infinite operands mixed in
			g.loadClass("r0", classes[g.R.Intn(6)], 0)
			g.loadClass("r1", classes[g.R.Intn(6)], 0)
			g.loadClass("r3", classes[g.R.Intn(6)], 0)
		}
		z, x, y, u := g.fmaShape()
		if distinct || g.SawExtreme {
			x, y, u = "r0", "r1", "r3"
			z = g.PickS("r2", "r2", "r0", "r1", "r3")
		}
		if z == "r2" {
			g.Receiver("r2", g.Pick(p, p, p, 0), m)
		} else {
			g.Emit(M{"op": "SetMode", "z": z, "m": m})
		}
		g.Emit(M{"op": "FMA", "z": z, "x": x, "y": y, "u": u})
		if g.Pending() >= 120 {
			out = append(out, g.Flush("fma"))
		}
	}
	// exactly zero sums of a zero product and a zero addend: every mode x sign of the product x sign of u x which
	// factor is the zero x every receiver (fresh, x, y, u): the IEEE sign rule, the same whatever the receiver is
	for m := 0; m < 6; m++ {
		for sg := 0; sg < 8; sg++ {
			for _, z := range []string{"r2", "r0", "r1", "r3"} {
				if g.R.Intn(2) == 0 && z != "r3" {
					continue
				}
				xzero := sg&4 != 0
				if xzero {
					g.LoadSpecial("r0", "zero", sg&1 != 0, g.Pick(0, 5), g.Mode())
					g.Load("r1", false, g.Digits(1+g.R.Intn(5)), int64(g.R.Intn(5)), 0, g.Mode())
				} else {
					g.Load("r0", sg&1 != 0, g.Digits(1+g.R.Intn(5)), int64(g.R.Intn(5)), 0, g.Mode())
					g.LoadSpecial("r1", "zero", false, g.Pick(0, 5), g.Mode())
				}
				g.LoadSpecial("r3", "zero", sg&2 != 0, g.Pick(0, 5, 9), g.Mode())
				if z == "r2" {
					g.Receiver("r2", g.Pick(0, 4), m)
				} else {
					g.Emit(M{"op": "SetMode", "z": z, "m": m})
				}
				g.Emit(M{"op": "FMA", "z": z, "x": "r0", "y": "r1", "u": "r3"})
				if g.Pending() >= 120 {
					out = append(out, g.Flush("fma"))
				}
			}
		}
	}
	// the addend passes through unchanged (zero product, or an infinite addend with finite factors) while it carries an
	// inexact accuracy from its own history and is also the receiver: the result is exact and must say so
	for m := 0; m < 6; m++ {
		for kind := 0; kind < 4; kind++ {
			switch kind {
			case 0, 1: // u finite, rounded by SetPrec (Below or Above stays behind); x or y zero
				g.Load("r3", g.Bool(), g.Digits(9+g.R.Intn(20)), g.Exp(), 0, g.Mode())
				g.Emit(M{"op": "SetMode", "z": "r3", "m": m}) // (before SetPrec: SetMode resets the accuracy)
				g.Emit(M{"op": "SetPrec", "z": "r3", "p": 3 + g.R.Intn(5)})
				g.LoadSpecial("r0", "zero", g.Bool(), g.Pick(0, 5), g.Mode())
				g.Load("r1", g.Bool(), g.Digits(1+g.R.Intn(6)), int64(g.R.Intn(9)-4), 0, g.Mode())
				if kind == 1 {
					g.Emit(M{"op": "Copy", "z": "r2", "x": "r0"})
					g.Emit(M{"op": "Copy", "z": "r0", "x": "r1"})
					g.Emit(M{"op": "Copy", "z": "r1", "x": "r2"})
				}
			default: // u = +-Inf obtained by an overflowing multiplication (accuracy Above / Below), finite factors
				g.Load("r0", g.Bool(), "5", 2147483647, 0, g.Mode())
				g.Load("r1", g.Bool(), "7", 40, 0, g.Mode())
				g.Receiver("r3", 5, g.Mode())
				g.Emit(M{"op": "Mul", "z": "r3", "x": "r0", "y": "r1"})
				g.Load("r0", g.Bool(), g.Digits(1+g.R.Intn(6)), int64(g.R.Intn(9)-4), 0, g.Mode())
				g.Load("r1", g.Bool(), g.Digits(1+g.R.Intn(6)), int64(g.R.Intn(9)-4), 0, g.Mode())
			}
			z := "r3"
			if kind == 3 {
				z = g.PickS("r3", "r2")
			}
			if z == "r2" {
				g.Receiver("r2", g.Pick(0, 6), m)
			}
			g.Emit(M{"op": "FMA", "z": z, "x": "r0", "y": "r1", "u": "r3"})
			if g.Pending() >= 120 {
				out = append(out, g.Flush("fma"))
			}
		}
	}
	if g.Pending() > 0 {
		out = append(out, g.Flush("fma"))
	}
	return out
}
