package gen

import "strconv"

// History generates long histories (C08/C09): mixed setters, arithmetic, Sqrt, SetPrec/SetMode,
// raw access, over four registers that are reused and aliased, without re-loading in between.
func History(g *G, nprog, steps int) []Program {
	var out []Program
	regs := []string{"r0", "r1", "r2", "r3"}
	for i := 0; i < nprog; i++ {
		// start from a few values
		for _, r := range regs[:3] {
			if g.R.Intn(4) == 0 {
				continue // leave a zero value
			}
			g.Load(r, g.Bool(), g.Digits(g.Len()), int64(g.R.Intn(41)-20), 0, g.Mode())
		}
		for s := 0; s < steps; s++ {
			z, x, y, u := g.PickS(regs...), g.PickS(regs...), g.PickS(regs...), g.PickS(regs...)
			switch k := g.R.Intn(100); {
			case k < 30:
				g.Emit(M{"op": g.PickS("Add", "Sub", "Mul", "Quo"), "z": z, "x": x, "y": y})
			case k < 36:
				g.Emit(M{"op": "FMA", "z": z, "x": x, "y": y, "u": u})
			case k < 42:
				g.Emit(M{"op": "Abs", "z": x, "x": x}) // make it non-negative first
				g.Emit(M{"op": "Sqrt", "z": z, "x": x})
			case k < 52:
				g.Emit(M{"op": g.PickS("Set", "Neg", "Abs", "Copy"), "z": z, "x": x})
			case k < 60:
				g.Emit(M{"op": "SetPrec", "z": z, "p": g.Pick(0, 1, 2, 5, 19, 20, 34, 38, g.Prec())})
			case k < 66:
				g.Emit(M{"op": "SetMode", "z": z, "m": g.Mode()})
			case k < 70:
				g.Emit(M{"op": "SetInf", "z": z, "neg": g.Bool()})
			case k < 73: // integers whose digit count is a multiple of the word size, large leading digits, exponent on the word boundary
				d := g.PickS("9", "8", "7", "1") + g.Digits(g.Pick(19, 38, 57)-1)
				if g.Bool() {
					d = rep("9", g.Pick(19, 38, 57))
				}
				g.Emit(M{"op": "SetInt", "z": z, "i": g.PickS("", "-") + d})
				// read-only conversions of a value whose exponent sits exactly on a word boundary
				g.Emit(M{"op": g.PickS("Rat", "Float64", "Float32", "Int", "Int64"), "x": z, "into": ""})
				g.Emit(M{"op": "BitsExp", "x": z})
			case k < 76:
				g.Emit(M{"op": "SetInt64", "z": z, "i": itoa(g.R.Int63n(2000) - 1000)})
			case k < 80:
				g.Emit(M{"op": "SetUint64", "z": z, "i": g.PickS("0", "1", "18446744073709551615", "9999999999999999999", "10000000000000000000")})
			case k < 84:
				g.Emit(M{"op": "NewDecimal", "z": z, "i": itoa(g.R.Int63n(200000) - 100000), "e": itoa(int64(g.R.Intn(41) - 20))})
			case k < 88:
				g.Emit(M{"op": "SetMantExp", "z": z, "x": x, "e": itoa(int64(g.R.Intn(41) - 20))})
			case k < 91:
				g.Emit(M{"op": "MantExp", "z": g.PickS(z, "nil"), "x": x})
			case k < 93:
				g.Emit(M{"op": "SetBitsExp", "z": z, "words": []any{g.word(), g.word()}, "e": itoa(int64(g.R.Intn(41) - 20))})
			case k < 94 && x != z:
				g.Emit(M{"op": g.PickS("GobRoundTrip", "GobStream"), "x": x, "z": z})
			case k < 95:
				g.Emit(M{"op": "SetFloat64", "z": z, "bits": strconv.FormatUint(g.f64bits(), 10)})
			case k < 96:
				g.Emit(M{"op": "New", "z": z})
			case k < 97:
				if g.Bool() {
					// text input into a register with a history: literals that are rejected after part of them was read
					// (the receiver must stay a valid Decimal), and accepted ones
					lit := g.PickS("1__2", "1_", ".", "12e", "0.000123e+", "1.5x", "0x", "1e99999999999", "12345678901234567890123456789012345678901e-", "7.25",
						"-0.000125e3", "+Inf", "0b1.1p-3", "1_000.5", "9999999999999999999999999999999999999995")
					g.Emit(M{"op": g.PickS("Parse", "SetString", "UnmarshalText"), "z": z, "s": lit, "base": 0})
					break
				}
				g.Emit(M{"op": g.PickS("Rat", "Int", "Float64", "Int64", "Text"), "x": x, "into": "", "fmt": "g", "prec": -1})
			case k < 98:
				g.Emit(M{"op": "Cmp", "x": x, "y": y})
			default:
				g.Emit(M{"op": "Preds", "x": x})
			}
		}
		out = append(out, g.Flush("hist"))
	}
	return out
}
