package gen

import (
	"math/big"
	"strconv"
	"strings"
)

var edgeInts = []string{"0", "1", "-1", "9223372036854775807", "-9223372036854775808", "9223372036854775806", "-9223372036854775807",
	"1000000000000000000", "999999999999999999", "-1000000000000000000", "4611686018427387904", "-4611686018427387904"}
var edgeUints = []string{"0", "1", "18446744073709551615", "18446744073709551614", "9223372036854775808", "9223372036854775807",
	"9999999999999999999", "10000000000000000000", "12345678901234567890", "10000000000000000001"}

// nearInt returns digits and exponent of a Decimal near an integer boundary v (a decimal string), possibly with a fraction.
func (g *G) loadNear(r string, v *big.Int, neg bool) {
	// v +- small, with an optional fractional part
	w := new(big.Int).Add(v, big.NewInt(int64(g.R.Intn(5)-2)))
	if w.Sign() < 0 {
		w.Neg(w)
	}
	s := w.String()
	frac := ""
	switch g.R.Intn(4) {
	case 0:
		frac = g.Digits(1 + g.R.Intn(25))
	case 1:
		frac = strings.Repeat("0", g.R.Intn(20)) + "1"
	case 2:
		frac = strings.Repeat("9", 1+g.R.Intn(20))
	}
	d := strings.TrimLeft(s+frac, "0")
	lead := len(s+frac) - len(d)
	e := int64(len(s) - lead)
	d = strings.TrimRight(d, "0")
	if d == "" {
		g.LoadSpecial(r, "zero", neg, 5, g.Mode())
		return
	}
	g.Load(r, neg, d, e, 0, g.Mode())
}

// Conv generates the C14 programs.
func Conv(g *G, n int) []Program {
	var out []Program
	// NewDecimal(x, e) right at the edge of the representable range: x with d digits is representable iff
	// MinExp <= e + d <= MaxExp; one step inside, on and outside each limit, for several digit counts and both signs
	for _, xs := range []string{"7", "1234567890", "999999999999999999", "1000000000000000000", "9223372036854775807", "-9223372036854775808", "-5"} {
		d := int64(len(xs))
		if xs[0] == '-' {
			d--
		}
		for _, off := range []int64{-2, -1, 0, 1} {
			for _, e := range []int64{-2147483648 - d + off, 2147483647 - d + off} {
				g.Emit(M{"op": "NewDecimal", "z": "r2", "i": xs, "e": itoa(e)})
				if e > 2147483647 || e < -2147483648 {
					g.Emit(M{"op": "New", "z": "r2"})
				}
			}
		}
	}
	out = append(out, g.Flush("conv"))
	two63 := new(big.Int).Lsh(big.NewInt(1), 63)
	two64 := new(big.Int).Lsh(big.NewInt(1), 64)
	ten19 := new(big.Int).Exp(big.NewInt(10), big.NewInt(19), nil)
	ten20 := new(big.Int).Exp(big.NewInt(10), big.NewInt(20), nil)
	bounds := []*big.Int{two63, two64, ten19, ten20, big.NewInt(1), big.NewInt(0), new(big.Int).Exp(big.NewInt(10), big.NewInt(38), nil)}
	for i := 0; i < n; i++ {
		switch k := g.R.Intn(100); {
		case k < 30: // Decimals around 2^63, 2^64, 10^19, 10^20 -> Int64 / Uint64 / Int / Rat / IsInt
			g.loadNear("r0", bounds[g.R.Intn(len(bounds))], g.Bool())
			g.Emit(M{"op": "Int64", "x": "r0"})
			g.Emit(M{"op": "Uint64", "x": "r0"})
			g.Emit(M{"op": "Int", "x": "r0", "into": g.PickS("", "12345678901234567890123456789")})
			g.Emit(M{"op": "Rat", "x": "r0", "into": g.PickS("", "5")})
			g.Emit(M{"op": "IsInt", "x": "r0"})
		case k < 36: // integer parts whose binary length sits on a 64-bit word boundary (58, 135, 212, 270, 289 digits; 1368 for the mantissa)
			n := g.Pick(58, 58, 135, 212, 270, 289, 38, 19, 57)
			d := g.PickS("9", "8", "7") + g.Digits(n-1+g.Pick(0, 0, 5))
			g.Load("r0", g.Bool(), strings.TrimRight(d, "0")+"1", int64(n), 0, g.Mode())
			g.Emit(M{"op": "Int", "x": "r0", "into": ""})
			g.Emit(M{"op": "Rat", "x": "r0", "into": g.PickS("", "5")})
			g.Emit(M{"op": "Float64", "x": "r0"})
			g.Emit(M{"op": "IsInt", "x": "r0"})
		case k < 45: // arbitrary Decimals (moderate exponents), specials
			tiny := false
			switch g.R.Intn(8) {
			case 0:
				g.loadClass("r0", classes[g.R.Intn(6)], 0)
			default:
				e := int64(g.R.Intn(120) - 40)
				if g.R.Intn(6) == 0 {
					e = int64(g.R.Intn(3000) - 1500)
				}
				if g.R.Intn(10) == 0 {
					e = g.ExtremeExp()
					if e > 0 {
						e = -e // huge integers cannot be materialised; tiny values can (but not as a big.Rat)
					}
					tiny = true
				}
				g.Load("r0", g.Bool(), g.Digits(g.Len()), e, 0, g.Mode())
				if g.Bool() {
					g.Emit(M{"op": "SetPrec", "z": "r0", "p": g.Prec()})
				}
			}
			g.Emit(M{"op": "Int64", "x": "r0"})
			g.Emit(M{"op": "Uint64", "x": "r0"})
			g.Emit(M{"op": "Int", "x": "r0", "into": ""})
			if !tiny {
				g.Emit(M{"op": "Rat", "x": "r0", "into": ""})
			}
			g.Emit(M{"op": "IsInt", "x": "r0"})
		case k < 60: // SetInt64 / SetUint64 / NewDecimal
			p, m := g.Pick(0, 0, g.Prec()), g.Mode()
			g.Receiver("r2", p, m)
			switch g.R.Intn(3) {
			case 0:
				v := edgeInts[g.R.Intn(len(edgeInts))]
				if g.Bool() {
					v = strconv.FormatInt(g.R.Int63()-g.R.Int63(), 10)
				}
				g.Emit(M{"op": "SetInt64", "z": "r2", "i": v})
			case 1:
				v := edgeUints[g.R.Intn(len(edgeUints))]
				if g.Bool() {
					v = strconv.FormatUint(g.R.Uint64(), 10)
				}
				g.Emit(M{"op": "SetUint64", "z": "r2", "i": v})
			default:
				v := edgeInts[g.R.Intn(len(edgeInts))]
				e := int64(g.R.Intn(81) - 40)
				switch g.R.Intn(7) {
				case 3: // just outside the exponent range: the digit count of x decides whether x * 10^e is still representable
					if g.Bool() {
						e = -2147483648 - int64(g.R.Intn(40))
					} else {
						e = 2147483647 - int64(g.R.Intn(25)) + 2
					}
				case 0, 1:
					e = g.ExtremeExp()
				case 2: // any int is a legal exponent argument: the ends of int64, where exponent + digit count wraps
					e = g.PickI64(9223372036854775807, 9223372036854775806, 9223372036854775788, -9223372036854775808, -9223372036854775807,
						-9223372036854775789, 4294967296, -4294967296, 2147483648, -2147483649, 9223372036854775807-int64(g.R.Intn(40)), -9223372036854775808+int64(g.R.Intn(40)))
				}
				g.Emit(M{"op": "NewDecimal", "z": "r2", "i": v, "e": itoa(e)})
				if e > 2147483647 || e < -2147483648 {
					g.Emit(M{"op": "New", "z": "r2"}) // the 32-bit executor cannot run the step above: resynchronise the register
				}
			}
		case k < 80: // SetInt with big integers (radix conversion loops), all precisions
			p, m := g.Pick(0, 0, g.Prec()), g.Mode()
			g.Receiver("r2", p, m)
			var v string
			switch g.R.Intn(5) {
			case 0:
				v = g.targetResult(g.Prec())
			case 1:
				v = g.Digits(g.Len()) + strings.Repeat("0", g.Pick(0, 1, 18, 19, 20, 40))
			case 2:
				v = "0"
			default:
				v = g.Digits(g.Len())
				if g.Thor && g.R.Intn(10) == 0 {
					v = g.Digits(2000 + g.R.Intn(3000))
				}
			}
			if g.Bool() && v != "0" {
				v = "-" + v
			}
			g.Emit(M{"op": "SetInt", "z": "r2", "i": v})
		default: // SetRat
			p, m := g.Pick(0, 0, g.Prec()), g.Mode()
			g.Receiver("r2", p, m)
			num := g.Digits(1 + g.R.Intn(40))
			den := g.Digits(1 + g.R.Intn(40))
			switch g.R.Intn(5) {
			case 0: // terminating: denominator 2^a 5^b
				d := new(big.Int).Exp(big.NewInt(2), big.NewInt(int64(g.R.Intn(30))), nil)
				d.Mul(d, new(big.Int).Exp(big.NewInt(5), big.NewInt(int64(g.R.Intn(30))), nil))
				den = d.String()
			case 1: // integer
				den = "1"
			case 2: // quotient tie: num = q * den with a delicate q, then made non-integer by a factor
				q := bigOf(g.targetResult(g.Prec()))
				dd := bigOf(den)
				num = new(big.Int).Mul(q, dd).String()
				den = new(big.Int).Mul(dd, new(big.Int).Exp(big.NewInt(10), big.NewInt(int64(1+g.R.Intn(30))), nil)).String()
			}
			if g.Bool() {
				num = "-" + num
			}
			g.Emit(M{"op": "SetRat", "z": "r2", "num": num, "den": den})
		}
		if g.Pending() >= 150 {
			out = append(out, g.Flush("conv"))
		}
	}
	if g.Pending() > 0 {
		out = append(out, g.Flush("conv"))
	}
	out = append(out, BinaryBoundary(g, "conv")...)
	if g.Pending() > 0 {
		out = append(out, g.Flush("conv"))
	}
	return out
}
