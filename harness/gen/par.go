package gen

import "strconv"

// Par generates the C18 programs: k goroutines use the same Decimals as operands of arithmetic, Sqrt,
// comparison, formatting, conversion and encoding while each writes only to its own receiver.
func Par(g *G, nprog int) []Program {
	var out []Program
	poolcap := 2500
	if g.Thor {
		poolcap = 20000
	}
	for p := 0; p < nprog; p++ {
		k := g.Pick(2, 2, 3, 4, 8)
		regs := []string{"r0", "r1"}
		for i := 0; i < k; i++ {
			regs = append(regs, "r"+strconv.Itoa(2+i))
		}
		// shared operands: large enough for Karatsuba scratch space and for long (recursive) division
		lx, ly := g.Pick(800, 1500, 2500, 4200), g.Pick(600, 1000, 1950, 2300)
		maxp := 3000
		if !g.Thor {
			// the quick tier also runs these programs under the race detector with pure Go kernels (50x slower)
			lx, ly = g.Pick(400, 800, 1500), g.Pick(300, 600, 1000, 1950)
			maxp = 900
		}
		storm := p%4 == 1 // every goroutine inside recursive long division (divisor >= 100 words) at the same time
		if storm {
			lx, ly, k = 2400, 1950, 4
			regs = []string{"r0", "r1", "r2", "r3", "r4", "r5"}
		}
		// moderate exponents: an addition of operands 2^31 digits apart allocates gigabytes, k goroutines at once, and eight
		// times that under the race detector (the thorough tier was once killed by the kernel at 26 GB)
		modExp := func() int64 {
			if e := g.Exp(); e < 100000 && e > -100000 {
				return e
			}
			return int64(g.R.Intn(801) - 400)
		}
		g.Load("r0", g.Bool(), g.Digits(lx), modExp(), 0, g.Mode())
		g.Load("r1", false, g.Digits(ly), modExp(), 0, g.Mode())
		for i := 0; i < k; i++ {
			g.Receiver(regs[2+i], g.Pick(60, 400, maxp), g.Mode())
		}
		if p%4 == 2 {
			// a shared operand whose mantissa has zero low words (a short quotient at a large precision):
			// formatting and arithmetic must not touch its representation
			g.Load("r1", false, "8", 1, 120, g.Mode())
			g.Load(regs[2], false, "1", 1, 120, g.Mode())
			g.Emit(M{"op": "Quo", "z": "r1", "x": regs[2], "y": "r1"})
			g.Emit(M{"op": "SetPrec", "z": "r1", "p": 130})
		}
		squares := p%8 == 3 // every goroutine squares the same operand of 51..99 words (Karatsuba squaring with a tail: pooled temporaries)
		if squares {
			g.Load("r0", g.Bool(), g.Digits(g.Pick(1000, 1300, 1800)), modExp(), 0, g.Mode())
		}
		observers := p%8 == 7 // goroutines that only read: formatting with an explicit precision, conversions, comparisons
		if observers {
			// r0: an integer whose digits fill its mantissa words exactly (the conversions need no shift and may be tempted
			// to work on the operand itself); r1: a long value at the top of the exponent range (formatting rounds a copy
			// one decade lower there)
			g.Load("r0", g.Bool(), g.Digits(g.Pick(38, 57, 76)), 0, 0, g.Mode())
			g.Emit(M{"op": "SetMantExp", "z": "r0", "x": "r0", "e": strconv.Itoa(g.Pick(38, 57, 76))})
			g.Load("r1", g.Bool(), g.Digits(g.Pick(200, 2000)), 2147483647, 0, g.Mode())
		}
		var gs []any
		for i := 0; i < k; i++ {
			z := regs[2+i]
			var steps []any
			ns := 3 + g.R.Intn(4)
			if squares {
				for j := 0; j < ns; j++ {
					steps = append(steps, M{"op": "Mul", "z": z, "x": "r0", "y": "r0"})
				}
				gs = append(gs, steps)
				continue
			}
			if observers {
				for j := 0; j < ns+3; j++ {
					switch g.R.Intn(9) {
					case 0, 1:
						steps = append(steps, M{"op": "Int", "x": "r0", "into": ""})
					case 2:
						steps = append(steps, M{"op": g.PickS("Int64", "Float64", "IsInt", "GobEncode"), "x": "r0"})
					case 3:
						steps = append(steps, M{"op": "Text", "x": "r0", "fmt": "f", "prec": g.Pick(0, -1)})
					case 4, 5:
						steps = append(steps, M{"op": "Text", "x": "r1", "fmt": g.PickS("e", "g", "E"), "prec": g.Pick(5, 1, 30)})
					case 6:
						steps = append(steps, M{"op": "Cmp", "x": g.PickS("r0", "r1"), "y": g.PickS("r0", "r1")})
					case 7:
						steps = append(steps, M{"op": "MantExp", "x": "r1", "z": "nil"})
					default:
						steps = append(steps, M{"op": "Add", "z": z, "x": "r0", "y": "r0"})
					}
				}
				gs = append(gs, steps)
				continue
			}
			if p%4 == 2 { // every goroutine formats and adds the operand with zero low words
				steps = append(steps, M{"op": "Text", "x": "r1", "fmt": g.PickS("e", "f", "g"), "prec": -1}, M{"op": "Add", "z": z, "x": "r0", "y": "r1"})
			}
			for j := 0; j < ns; j++ {
				if storm {
					steps = append(steps, M{"op": "Quo", "z": z, "x": "r0", "y": "r1"})
					continue
				}
				switch g.R.Intn(10) {
				case 0, 1:
					steps = append(steps, M{"op": "Mul", "z": z, "x": "r0", "y": "r1"})
				case 2:
					steps = append(steps, M{"op": "Mul", "z": z, "x": "r0", "y": "r0"})
				case 3, 4:
					steps = append(steps, M{"op": "Quo", "z": z, "x": "r0", "y": "r1"})
				case 5:
					steps = append(steps, M{"op": "Sqrt", "z": z, "x": "r1"})
				case 6:
					steps = append(steps, M{"op": g.PickS("Add", "Sub"), "z": z, "x": "r0", "y": "r1"})
				case 7:
					steps = append(steps, M{"op": "Cmp", "x": "r0", "y": "r1"})
				case 8:
					steps = append(steps, M{"op": "Text", "x": g.PickS("r0", "r1"), "fmt": g.PickS("e", "g", "p"), "prec": g.Pick(-1, -1, 20)})
				default:
					steps = append(steps, M{"op": g.PickS("GobEncode", "Float64", "IsInt"), "x": g.PickS("r0", "r1")})
				}
			}
			gs = append(gs, steps)
		}
		g.Emit(M{"op": "Par", "g": gs, "iters": g.Pick(1, 2, 3), "gomaxprocs": g.Pick(1, 2, 4, 16), "gc": g.Pick(0, 0, 3, 7), "poolcap": poolcap})
		pr := g.Flush("par")
		pr.Regs = regs
		pr.Thr = thresholdSets[p%len(thresholdSets)]
		out = append(out, pr)
	}
	return out
}
