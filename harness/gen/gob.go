package gen

import "strings"

// Gob generates the C17 programs.
func Gob(g *G, n int) []Program {
	var out []Program
	for i := 0; i < n; i++ {
		xp := 0 // the transmitted precision when the generator knows it
		// the value to transmit, with all attributes varied
		switch g.R.Intn(8) {
		case 0:
			g.loadClass("r0", classes[g.R.Intn(6)], g.R.Intn(3))
		default:
			l := g.Len()
			if g.R.Intn(12) == 0 {
				l = 1000 + g.R.Intn(4700) // up to ~300 words
			}
			d := g.Digits(l)
			if g.R.Intn(3) == 0 {
				d = strings.TrimRight(d, "0") + strings.Repeat("0", g.Pick(0, 19, 38)) // trailing zero words
				d = strings.TrimRight(d, "0")
				if d == "" {
					d = "1"
				}
			}
			e := g.Exp()
			xp = len(d) + g.Pick(0, 1, 19, 40)
			g.Load("r0", g.Bool(), d, e, xp, g.Mode())
			if g.R.Intn(3) == 0 { // leave an inexact accuracy behind
				xp = 1 + g.R.Intn(len(d))
				g.Emit(M{"op": "SetPrec", "z": "r0", "p": xp})
			}
		}
		if g.R.Intn(12) == 0 { // the largest precision there is: the word count derived from it must not wrap
			g.Emit(M{"op": "SetPrecMax", "z": "r0"})
			xp = 0
		}
		// the receiver: zero value, precision 0 with other attributes, or its own precision and mode
		switch g.R.Intn(4) {
		case 0:
			g.Emit(M{"op": "New", "z": "r2"})
		case 1:
			g.Receiver("r2", 0, g.Mode())
		default:
			rp := g.Prec()
			if xp > 0 && g.R.Intn(3) == 0 {
				rp = xp // the receiver's precision happens to be the transmitted one: its mode and accuracy rules still apply
			}
			g.Receiver("r2", rp, g.Mode())
		}
		switch k := g.R.Intn(100); {
		case k < 25:
			g.Emit(M{"op": "GobEncode", "x": "r0"})
			g.Emit(M{"op": "GobRoundTrip", "x": "r0", "z": "r2"})
		case k < 35:
			g.Emit(M{"op": "GobStream", "x": "r0", "z": "r2"})
		case k < 40: // hand-made payloads
			g.Emit(M{"op": "GobDecode", "z": "r2", "hex": g.PickS("", "01", "0102", "010203", "0100", "01000000", "0100000000", "010000000022", "02000000000a",
				"010200000005", "0102000000050000000100000000000000", "01020000000500000001ffffffffffffffff", "0102000000050000000100000000000003e8",
				"010200000005000000018ac7230489e7ffff", "010200000005000000010de0b6b3a7640000", "010200000000000000010de0b6b3a7640000",
				"0106000000050000000105f5e10000000000", "01e200000005000000010de0b6b3a7640000", "011a00000005000000010de0b6b3a7640000", "0104000000050000000100", "010400000000", "010500000007")})
		default: // a valid encoding, corrupted
			s := M{"op": "GobMutate", "x": "r0", "z": "r2"}
			switch g.R.Intn(7) {
			case 0:
				s["mut"], s["pos"], s["val"] = "xor", g.R.Intn(32), 1<<uint(g.R.Intn(8))
			case 1:
				s["mut"], s["pos"], s["val"] = "xor", 100000-g.R.Intn(9), 1<<uint(g.R.Intn(8)) // near the end
			case 2:
				s["mut"], s["pos"], s["val"] = "set", g.Pick(0, 1, 1, 2, 5, 6, 9, 10, 11, 17, 18), g.Pick(0, 1, 2, 3, 6, 7, 0x1f, 0x18, 0xe0, 0xc0, 0xff, 0x8a, 0x0d)
			case 3:
				s["mut"], s["pos"] = "trunc", g.R.Intn(60)
			case 4:
				s["mut"], s["pos"] = "trunc", 100000-g.R.Intn(20)
			case 5:
				s["mut"], s["bytes"] = "append", g.PickS("00", "ff", "0000000000000000", "0de0b6b3a7640000", "01")
			default:
				s["mut"], s["pos"], s["bytes"] = "settail", g.R.Intn(4), g.PickS("8ac7230489e80000", "ffffffffffffffff", "0000000000000000", "0000000000000001", "016345785d8a0000")
			}
			g.Emit(s)
		}
		// the decoded value must keep working
		g.Emit(M{"op": "Add", "z": "r3", "x": "r2", "y": "r2"})
		if g.Pending() >= 150 {
			out = append(out, g.Flush("gob"))
		}
	}
	if g.Pending() > 0 {
		out = append(out, g.Flush("gob"))
	}
	return out
}
