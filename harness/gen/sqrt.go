package gen

import (
	"math/big"
	"strings"
)

// Sqrt generates the C05 programs.
func Sqrt(g *G, n int) []Program {
	var out []Program
	for i := 0; i < n; i++ {
		p, m := g.Prec(), g.Mode()
		e := g.Exp()
		if g.R.Intn(10) == 0 {
			e = g.ExtremeExp()
		}
		switch k := g.R.Intn(100); {
		case k < 30: // perfect squares: x = r^2 (exact root in every mode when r fits)
			r := bigOf(g.Digits(1 + g.R.Intn(p+2)))
			x := new(big.Int).Mul(r, r)
			g.LoadInt("r0", false, x, 2*(e/2), 0, g.Mode())
		case k < 45: // neighbours of perfect squares: r^2 +- 1 in the last place
			r := bigOf(g.Digits(1 + g.R.Intn(p+2)))
			x := new(big.Int).Mul(r, r)
			if g.Bool() {
				x.Add(x, big.NewInt(1))
			} else if x.Cmp(big.NewInt(1)) > 0 {
				x.Sub(x, big.NewInt(1))
			}
			g.LoadInt("r0", false, x, e, 0, g.Mode())
		case k < 60: // squares of midpoints: x = (r + 1/2 ulp)^2 exactly (ties for sqrt) - needs more digits than p
			r := bigOf(g.Digits(p) + "5")
			x := new(big.Int).Mul(r, r)
			if g.R.Intn(3) == 0 {
				x.Add(x, big.NewInt(int64(g.R.Intn(3)-1)))
			}
			g.LoadInt("r0", false, x, 2*(e/2), 0, g.Mode())
		case k < 68: // specials
			g.loadClass("r0", g.PickS("+0", "-0", "+inf", "-inf", "-fin"), 0)
		case k < 80: // x has just a few more digits than the receiver: an intermediate rounding to x's precision would show
			d := g.Digits(p + 1 + g.R.Intn(3))
			if d[len(d)-1] == '0' {
				d = d[:len(d)-1] + "7"
			}
			g.Load("r0", false, d, e, 0, g.Mode())
		default:
			d := strings.TrimRight(g.Digits(g.Len()), "0")
			if d == "" {
				d = "2"
			}
			g.Load("r0", false, d, e, 0, g.Mode())
		}
		// receiver precision smaller, equal, larger than x's (or 0), x's mode different from z's
		z := "r2"
		if g.R.Intn(6) == 0 {
			z = "r0"
			g.Emit(M{"op": "SetMode", "z": z, "m": m})
		} else {
			g.Receiver("r2", g.Pick(p, p, 0), m)
		}
		g.Emit(M{"op": "Sqrt", "z": z, "x": "r0"})
		if g.Pending() >= 120 {
			out = append(out, g.Flush("sqrt"))
		}
	}
	if g.Pending() > 0 {
		out = append(out, g.Flush("sqrt"))
	}
	return out
}
