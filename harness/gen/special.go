package gen

// Operand classes of C04: -Inf, -finite, -0, +0, +finite, +Inf.
var classes = []string{"-inf", "-fin", "-0", "+0", "+fin", "+inf"}

// loadClass puts a value of the class into register r. Finite magnitudes come from a small pool
// (ordinary, near the bottom and near the top of the exponent range) so that over/underflow
// interacts with the special-value dispatch.
func (g *G) loadClass(r, class string, mag int) {
	neg := class[0] == '-'
	switch class[1:] {
	case "inf":
		g.LoadSpecial(r, "inf", neg, g.Pick(0, 3, 20), g.Mode())
	case "0":
		g.LoadSpecial(r, "zero", neg, g.Pick(0, 3, 20), g.Mode())
	default:
		switch mag {
		case 0:
			g.Load(r, neg, g.PickS("125", "75", "1", "999", "5", "25"), int64(g.Pick(0, 1, 2)), g.Pick(3, 5, 20), g.Mode())
		case 1:
			g.Load(r, neg, g.Digits(1+g.R.Intn(4)), -2147483648+int64(g.R.Intn(3)), g.Pick(4, 5, 20), g.Mode())
		default:
			g.Load(r, neg, g.Digits(1+g.R.Intn(4)), 2147483647-int64(g.R.Intn(3)), g.Pick(4, 5, 20), g.Mode())
		}
	}
}

// shapes2 lists the aliasing partitions of (z, x, y) that are compatible with the operand classes.
func shapes2(cx, cy string) [][3]string {
	s := [][3]string{{"r2", "r0", "r1"}, {"r0", "r0", "r1"}, {"r1", "r0", "r1"}}
	if cx == cy {
		s = append(s, [3]string{"r2", "r0", "r0"}, [3]string{"r0", "r0", "r0"})
	}
	return s
}

// Special enumerates every operation x operand-class combination x mode (x aliasing shape x
// receiver precision {0, >0}), the complete special-value table of C04.
func Special(g *G, thor bool) []Program {
	var out []Program
	flush := func() {
		if g.Pending() >= 150 {
			out = append(out, g.Flush("special"))
		}
	}
	mags := func() int {
		if g.R.Intn(3) == 0 {
			return 1 + g.R.Intn(2)
		}
		return 0
	}
	for _, op := range []string{"Add", "Sub", "Mul", "Quo"} {
		for _, cx := range classes {
			for _, cy := range classes {
				for m := 0; m < 6; m++ {
					shapes := shapes2(cx, cy)
					if !thor {
						shapes = [][3]string{shapes[g.R.Intn(len(shapes))], shapes[0]}
					}
					for _, sh := range shapes {
						mx, my := mags(), mags()
						if op == "Add" || op == "Sub" {
							my = mx // the library allocates a buffer as long as the exponent gap: same end of the range
						}
						g.loadClass("r0", cx, mx)
						if sh[2] != "r0" {
							g.loadClass("r1", cy, my)
							if cx[1:] == "fin" && cy[1:] == "fin" && g.Bool() {
								// same magnitude: exact cancellation (or doubling), the finite route to a zero sum
								g.Emit(M{"op": "Copy", "z": "r1", "x": "r0"})
								if cx[0] != cy[0] {
									g.Emit(M{"op": "Neg", "z": "r1", "x": "r1"})
								}
							}
						}
						z := sh[0]
						p := g.Pick(0, 0, 2, 7)
						if z == "r2" {
							g.Receiver("r2", p, m)
						} else {
							g.Emit(M{"op": "SetMode", "z": z, "m": m})
						}
						g.Emit(M{"op": op, "z": z, "x": sh[1], "y": sh[2]})
						flush()
					}
				}
			}
		}
	}
	// exact cancellation of finite operands (the finite route to a zero sum) x six modes x sign
	// combinations x receiver histories that leave a stale inexact accuracy / sign behind
	for m := 0; m < 6; m++ {
		for _, op := range []string{"Add", "Sub", "FMA"} {
			for sg := 0; sg < 2; sg++ {
				for hist := 0; hist < 4; hist++ {
					d := g.Digits(1 + g.R.Intn(25))
					e := g.Exp()
					xneg := sg == 1
					g.Load("r0", xneg, d, e, 0, g.Mode())
					yneg := !xneg
					if op == "Sub" {
						yneg = xneg
					}
					g.Load("r1", yneg, d, e, 0, g.Mode())
					z := "r2"
					switch hist {
					case 0: // stale Below/Above from a rounding SetPrec
						g.Load("r2", g.Bool(), "123456789", g.Exp(), 0, m)
						g.Emit(M{"op": "SetPrec", "z": "r2", "p": g.Pick(0, 3, 5)})
					case 1: // stale negative sign, exact
						g.LoadSpecial("r2", g.PickS("zero", "inf"), true, g.Pick(0, 4), m)
					case 2: // receiver is an operand
						z = g.PickS("r0", "r1")
						g.Emit(M{"op": "SetMode", "z": z, "m": m})
					default:
						g.Emit(M{"op": "New", "z": "r2"})
						g.Emit(M{"op": "SetMode", "z": "r2", "m": m})
					}
					if op == "FMA" {
						// x*1 + y
						g.Load("r3", false, "1", 1, 0, g.Mode())
						g.Emit(M{"op": "FMA", "z": z, "x": "r0", "y": "r3", "u": "r1"})
					} else {
						g.Emit(M{"op": op, "z": z, "x": "r0", "y": "r1"})
					}
					flush()
				}
			}
		}
	}
	// cancellation next to the bottom of the exponent range: the operands are representable, their difference
	// is not (it underflows to a zero that must keep the sign of the exact difference and an inexact accuracy),
	// or just is. Six modes x Add/Sub/FMA x sign of the result x which operand is larger.
	for m := 0; m < 6; m++ {
		for _, op := range []string{"Add", "Sub", "FMA"} {
			for sg := 0; sg < 2; sg++ {
				for big := 0; big < 2; big++ {
					prefix := g.Digits(1 + g.R.Intn(5))
					tail := func() string {
						if k := g.R.Intn(4); k > 0 {
							return g.Digits(k)
						}
						return ""
					}
					a := prefix + g.PickS("7", "9", "5") + tail()
					b := prefix + g.PickS("1", "3", "4") + tail()
					if big == 1 {
						a, b = b, a
					}
					e := int64(-2147483648) + int64(g.R.Intn(len(prefix)+2))
					xneg := sg == 1
					yneg := !xneg
					if op == "Sub" {
						yneg = xneg
					}
					g.Load("r0", xneg, a, e, 0, g.Mode())
					g.Load("r1", yneg, b, e, 0, g.Mode())
					z := "r2"
					if g.R.Intn(3) == 0 {
						z = g.PickS("r0", "r1")
						g.Emit(M{"op": "SetMode", "z": z, "m": m})
					} else {
						g.Receiver("r2", g.Pick(0, 0, 3, 20), m)
					}
					if op == "FMA" {
						g.Load("r3", false, "1", 1, 0, g.Mode())
						g.Emit(M{"op": "FMA", "z": z, "x": "r0", "y": "r3", "u": "r1"})
					} else {
						g.Emit(M{"op": op, "z": z, "x": "r0", "y": "r1"})
					}
					flush()
				}
			}
		}
	}
	// FMA: 216 class triples x 6 modes, random aliasing partition and precision
	for _, cx := range classes {
		for _, cy := range classes {
			for _, cu := range classes {
				for m := 0; m < 6; m++ {
					if !thor && g.R.Intn(2) == 0 {
						continue
					}
					// magnitudes: all ordinary, or product and addend at the same end of the exponent range
					mx, my, mu := 0, 0, 0
					switch g.R.Intn(5) {
					case 0:
						mx, mu = 2, 2
					case 1:
						my, mu = 1, 1
					}
					g.loadClass("r0", cx, mx)
					g.loadClass("r1", cy, my)
					g.loadClass("r3", cu, mu)
					x, y, u := "r0", "r1", "r3"
					if cx == cy && g.R.Intn(3) == 0 {
						y = "r0"
					}
					if cu == cx && g.R.Intn(4) == 0 {
						u = "r0"
					} else if cu == cy && y == "r1" && g.R.Intn(4) == 0 {
						u = "r1"
					}
					z := g.PickS("r2", "r2", x, y, u, u)
					if z == "r2" {
						g.Receiver("r2", g.Pick(0, 0, 2, 7), m)
					} else {
						g.Emit(M{"op": "SetMode", "z": z, "m": m})
					}
					g.Emit(M{"op": "FMA", "z": z, "x": x, "y": y, "u": u})
					flush()
				}
			}
		}
	}
	// single-operand operations
	for _, op := range []string{"Set", "Neg", "Abs", "Copy", "SetMantExp", "MantExp", "Sqrt"} {
		for _, cx := range classes {
			for m := 0; m < 6; m++ {
				for _, alias := range []bool{false, true} {
					g.loadClass("r0", cx, mags())
					z := "r2"
					if alias {
						z = "r0"
						g.Emit(M{"op": "SetMode", "z": z, "m": m})
					} else {
						g.Receiver("r2", g.Pick(0, 0, 2, 7), m)
					}
					s := M{"op": op, "z": z, "x": "r0"}
					if op == "SetMantExp" {
						s["e"] = itoa(int64(g.Pick(0, 1, -1, 5, -5, 2147483647, -2147483647, 100, -100)))
					}
					g.Emit(s)
					flush()
				}
			}
		}
	}
	if g.Pending() > 0 {
		out = append(out, g.Flush("special"))
	}
	return out
}
