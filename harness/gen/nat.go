package gen

import (
	"math/big"
	"strconv"
	"strings"
)

const wordMax = "9999999999999999999"

// words returns n words from an adversarial alphabet (top word non-zero unless n == 0).
func (g *G) words(n int) []any {
	ws := make([]any, n)
	style := g.R.Intn(6)
	for i := range ws {
		switch style {
		case 0:
			ws[i] = wordMax
		case 1:
			ws[i] = g.PickS("0", wordMax)
		case 2:
			ws[i] = g.PickS("0", "1", wordMax, "9999999999999999998", "5000000000000000000", "1000000000000000000", "4999999999999999999")
		default:
			ws[i] = g.word()
		}
	}
	if n > 0 && ws[n-1] == "0" {
		ws[n-1] = g.PickS("1", wordMax, "5000000000000000000", "1000000000000000000")
	}
	return ws
}

func wordsToBig(ws []any) *big.Int {
	v := new(big.Int)
	base := new(big.Int).Exp(big.NewInt(10), big.NewInt(19), nil)
	for i := len(ws) - 1; i >= 0; i-- {
		w, _ := new(big.Int).SetString(ws[i].(string), 10)
		v.Mul(v, base).Add(v, w)
	}
	return v
}

func bigToWords(v *big.Int) []any {
	s := v.String()
	if v.Sign() == 0 {
		return []any{}
	}
	var ws []any
	for len(s) > 0 {
		k := len(s) - 19
		if k < 0 {
			k = 0
		}
		w := strings.TrimLeft(s[k:], "0")
		if w == "" {
			w = "0"
		}
		ws = append(ws, w)
		s = s[:k]
	}
	return ws
}

// natLen picks an operand length in words.
func (g *G) natLen() int {
	switch k := g.R.Intn(100); {
	case k < 30:
		return 1 + g.R.Intn(4)
	case k < 60:
		return 1 + g.R.Intn(30)
	case k < 85:
		return 20 + g.R.Intn(100)
	case k < 97:
		return 100 + g.R.Intn(150)
	default:
		if g.Thor {
			return 250 + g.R.Intn(750)
		}
		return 250 + g.R.Intn(100)
	}
}

var thresholdSets = [][]int{{30, 10, 50}, {2, 2, 4}, {3, 3, 3}, {4, 10, 50}, {8, 4, 8}, {40, 10, 50}, {2, 2, 2}, {5, 3, 6}}

// Nat generates the C06 programs: dec.mul / dec.sqr / dec.div through the verif hooks, under several
// threshold assignments (one per program), with dirty destination buffers.
func Nat(g *G, nprog, per int) []Program {
	var out []Program
	for p := 0; p < nprog; p++ {
		thr := thresholdSets[p%len(thresholdSets)]
		// every code path once per threshold assignment, whatever the seed draws afterwards (K, BS, KS = thr)
		K, BS, KS := thr[0], thr[1], thr[2]
		for _, mn := range [][2]int{{5, 1}, {K + 3, 2}, {2 * K, 2 * K}, {2*K + 1, 2*K + 1}, {4*K + 3, 2 * K}} {
			if mn[1] >= 2 && mn[1] < K || mn[1] == 1 || mn[1] >= K {
				g.Emit(M{"op": "N.mul", "x": g.words(mn[0]), "y": g.words(mn[1]), "zlen": g.Pick(0, 5, 400), "zalias": ""})
			}
		}
		for _, n := range []int{1, BS - 1, BS, KS - 1, 2 * KS, 2*KS + 1} {
			if n >= 1 {
				g.Emit(M{"op": "N.sqr", "x": g.words(n), "zlen": g.Pick(0, 5, 400), "zalias": ""})
			}
		}
		{
			v1, v3, vr := g.words(1), g.words(3), g.words(101)
			q := g.words(4)
			g.Emit(M{"op": "N.div", "u": g.words(2), "v": v3, "zlen": 0, "zalias": ""})                                                  // small
			g.Emit(M{"op": "N.div", "u": g.words(6), "v": v1, "zlen": 5, "zalias": ""})                                                  // divW
			g.Emit(M{"op": "N.div", "u": g.words(8), "v": v3, "zlen": 0, "zalias": ""})                                                  // divBasic, remainder
			g.Emit(M{"op": "N.div", "u": bigToWords(new(big.Int).Mul(wordsToBig(q), wordsToBig(v3))), "v": v3, "zlen": 0, "zalias": ""}) // exact
			g.Emit(M{"op": "N.div", "u": g.words(130), "v": vr, "zlen": 0, "zalias": ""})                                                // divRecursive
		}
		for i := 0; i < per; i++ {
			switch k := g.R.Intn(100); {
			case k < 30:
				x, y := g.words(g.natLen()), g.words(g.natLen())
				if g.R.Intn(4) == 0 { // very unbalanced
					y = g.words(1 + g.R.Intn(3))
				}
				g.Emit(M{"op": "N.mul", "x": x, "y": y, "zlen": g.Pick(0, 0, 5, 400), "zalias": g.PickS("", "", "", "x", "y")})
			case k < 45:
				g.Emit(M{"op": "N.sqr", "x": g.words(g.natLen()), "zlen": g.Pick(0, 0, 5, 400), "zalias": g.PickS("", "", "x")})
			case k < 65: // division, random
				v := g.words(g.natLen())
				u := g.words(len(v) + g.R.Intn(len(v)+3))
				g.Emit(M{"op": "N.div", "u": u, "v": v, "zlen": g.Pick(0, 0, 5, 400), "zalias": g.PickS("", "", "v", "u", "u2")})
			case k < 85: // exact and nearly exact quotients: u = q*v (+ r), patterned v (forces quotient-digit correction and add-back)
				v := g.words(2 + g.R.Intn(40))
				q := g.words(1 + g.R.Intn(40))
				u := new(big.Int).Mul(wordsToBig(q), wordsToBig(v))
				switch g.R.Intn(3) {
				case 0:
					u.Add(u, big.NewInt(int64(g.R.Intn(3))))
				case 1:
					r := new(big.Int).Sub(wordsToBig(v), big.NewInt(1))
					u.Add(u, r)
				}
				g.Emit(M{"op": "N.div", "u": bigToWords(u), "v": v, "zlen": g.Pick(0, 5, 400), "zalias": g.PickS("", "", "v", "v", "u", "u2")})
			default: // long divisors: recursive division (>= 100 words)
				n := 100 + g.R.Intn(60)
				if g.Thor && g.R.Intn(3) == 0 {
					n = 200 + g.R.Intn(300)
				}
				v := g.words(n)
				var u []any
				if g.Bool() {
					q := g.words(1 + g.R.Intn(n+20))
					uu := new(big.Int).Mul(wordsToBig(q), wordsToBig(v))
					uu.Add(uu, big.NewInt(int64(g.R.Intn(2))))
					u = bigToWords(uu)
				} else {
					u = g.words(n + g.R.Intn(n+20))
				}
				g.Emit(M{"op": "N.div", "u": u, "v": v, "zlen": g.Pick(0, 5, 800), "zalias": g.PickS("", "", "v", "u", "u2")})
			}
		}
		pr := g.Flush("nat")
		pr.Thr = thr
		out = append(out, pr)
	}
	return out
}

func wstr(v uint64) string { return strconv.FormatUint(v, 10) }

// kernelMem lays out a backing array with sentinels: [s][x n][s][y n][s][z n][s]; returns mem and offsets.
func (g *G) kernelMem(x, y, z []any, inplace string) (mem []any, zo, xo, yo int) {
	s := "1111111111111111111"
	mem = append(mem, s)
	xo = len(mem)
	mem = append(mem, x...)
	mem = append(mem, s)
	yo = len(mem)
	mem = append(mem, y...)
	mem = append(mem, s)
	zo = len(mem)
	mem = append(mem, z...)
	mem = append(mem, s)
	switch inplace {
	case "x":
		zo = xo
	case "y":
		zo = yo
	}
	return
}

// Kernel generates the C07 programs: a structured enumeration of kernel inputs.
func Kernel(g *G, thor bool) []Program {
	var out []Program
	lens := []int{0, 1, 2, 3, 4, 5, 7, 8, 9, 15, 16, 17, 31, 32, 33, 63, 64, 65, 70}
	if thor {
		lens = lens[:0]
		for i := 0; i <= 70; i++ {
			lens = append(lens, i)
		}
	}
	pow10 := func(k int) string { return "1" + strings.Repeat("0", k) }
	emit := func(s M) {
		s["op"] = "K"
		g.Emit(s)
		if g.Pending() >= 200 {
			out = append(out, g.Flush("kernel"))
		}
	}
	vec := func(n int, style int) []any {
		ws := make([]any, n)
		for i := range ws {
			switch style {
			case 0:
				ws[i] = wordMax
			case 1:
				ws[i] = "0"
			case 2:
				ws[i] = g.PickS("0", wordMax)
			case 3:
				if i%2 == 0 {
					ws[i] = wordMax
				} else {
					ws[i] = "0"
				}
			case 4:
				ws[i] = "1"
			default:
				ws[i] = g.word()
			}
		}
		return ws
	}
	for _, n := range lens {
		for _, lay := range []string{"", "x", "y"} {
			// VV: carry patterns none / all / alternating / into-last / random
			for _, k := range []string{"add10VV", "sub10VV"} {
				for style := 0; style < 7; style++ {
					x, y := vec(n, style), vec(n, (style+g.R.Intn(6))%7)
					switch style {
					case 0: // all carry: 99..9 + 00..01  /  00..0 - 00..01
						if k == "sub10VV" {
							x = vec(n, 1)
						}
						y = vec(n, 1)
						if n > 0 {
							y[0] = "1"
						}
					case 6: // carry into the last word only
						x, y = vec(n, 1), vec(n, 1)
						if n > 0 {
							x[n-1], y[n-1] = wordMax, "1"
							if k == "sub10VV" {
								x[n-1] = "0"
							}
						}
					}
					mem, zo, xo, yo := g.kernelMem(x, y, vec(n, 5), lay)
					emit(M{"k": k, "mem": mem, "zo": zo, "xo": xo, "yo": yo, "n": n})
				}
			}
			if lay == "y" {
				continue
			}
			// VW: carry-run length 0..n, y in {0, 1, base-1, random}
			for _, k := range []string{"add10VW", "sub10VW"} {
				runs := []int{0, 1, n / 2, n - 1, n}
				for _, run := range runs {
					if run < 0 || run > n {
						continue
					}
					for _, y := range []string{"0", "1", wordMax, g.word()} {
						x := vec(n, 5)
						for i := 0; i < run; i++ {
							if k == "add10VW" {
								x[i] = wordMax
							} else {
								x[i] = "0"
							}
						}
						if run < n && n > 0 {
							x[run] = g.PickS("5", "1", "9999999999999999998", g.word())
						}
						mem, zo, xo, _ := g.kernelMem(x, nil, vec(n, 5), lay)
						emit(M{"k": k, "mem": mem, "zo": zo, "xo": xo, "n": n, "y": y})
					}
				}
			}
			// shifts: s = 0..18, words k*10^s-1, k*10^s, base-1, random
			for _, k := range []string{"shl10VU", "shr10VU"} {
				for s := 0; s <= 18; s++ {
					if !thor && n > 9 && s%3 != 0 {
						continue
					}
					x := vec(n, 5)
					for i := range x {
						switch g.R.Intn(5) {
						case 0:
							x[i] = wordMax
						case 1:
							x[i] = pow10(g.R.Intn(19))
						case 2:
							v, _ := new(big.Int).SetString(pow10(s), 10)
							v.Mul(v, big.NewInt(int64(1+g.R.Intn(9))))
							v.Sub(v, big.NewInt(1))
							if v.Cmp(bigOf(wordMax)) <= 0 {
								x[i] = v.String()
							}
						case 3: // low digits small, high digits arbitrary (C07: x mod 10^s < x mod 2^post)
							x[i] = strings.TrimLeft(g.Digits(19-s)+strings.Repeat("0", s), "0")
							if x[i] == "" {
								x[i] = "0"
							}
						}
					}
					mem, zo, xo, _ := g.kernelMem(x, nil, vec(n, 5), lay)
					emit(M{"k": k, "mem": mem, "zo": zo, "xo": xo, "n": n, "s": s})
				}
			}
			// sources longer than the destination, the destination a prefix of the source: how decKaratsubaAdd / Sub call
			// add10VV(z[0:n], z, x), add10VW(z[n:n+n>>1], z[n:], c), sub10VW(...): the length is the destination's
			if lay == "" {
				for _, extra := range []int{1, 2, 5} {
					for _, k := range []string{"add10VW", "sub10VW"} {
						for _, y := range []string{"1", wordMax} {
							x := vec(n+extra, 5)
							for i := 0; i < n; i++ { // a carry / borrow that runs through the whole destination
								if k == "add10VW" {
									x[i] = wordMax
								} else {
									x[i] = "0"
								}
							}
							mem := append(append([]any{"7"}, x...), "7")
							emit(M{"k": k, "mem": mem, "zo": 1, "xo": 1, "n": n, "xn": n + extra, "y": y})
						}
					}
					for _, k := range []string{"add10VV", "sub10VV"} {
						x, y := vec(n+extra, 5), vec(n+extra, g.Pick(0, 5))
						mem := append(append(append(append([]any{"7"}, x...), "7"), y...), "7")
						emit(M{"k": k, "mem": mem, "zo": 1, "xo": 1, "yo": n + extra + 2, "n": n, "xn": n + extra, "yn": n + extra})
					}
				}
			}
			// shifts with the destination overlapping the source at an offset, the way dec.shl / dec.shr call them on one
			// buffer: shl10VU writes k words ABOVE the words it reads, shr10VU k words BELOW (memmove semantics)
			if lay == "" && n > 0 {
				for _, k := range []int{1, 2, 3, 8, n / 2, n - 1, n} {
					if k < 1 || k > n {
						continue
					}
					for _, sh := range []int{0, 1, 9, 18, g.R.Intn(19)} {
						if !thor && n > 17 && sh != 0 && g.R.Intn(3) != 0 {
							continue
						}
						x := vec(n, 5)
						pad := vec(k, 5)
						up := append(append(append([]any{"7"}, x...), pad...), "7")
						emit(M{"k": "shl10VU", "mem": up, "xo": 1, "zo": 1 + k, "n": n, "s": sh})
						down := append(append(append([]any{"7"}, pad...), x...), "7")
						emit(M{"k": "shr10VU", "mem": down, "xo": 1 + k, "zo": 1, "n": n, "s": sh})
					}
				}
			}
			// mulAdd10VWW / addMul10VVW / div10VWW
			mults := []string{"0", "1", "2", "5000000000000000000", wordMax, pow10(1 + g.R.Intn(18)), g.word()}
			for _, y := range mults {
				for _, r := range []string{"0", wordMax, g.word()} {
					mem, zo, xo, _ := g.kernelMem(vec(n, g.Pick(0, 5, 5)), nil, vec(n, 5), lay)
					emit(M{"k": "mulAdd10VWW", "mem": mem, "zo": zo, "xo": xo, "n": n, "y": y, "r": r})
				}
				if lay == "" {
					mem, zo, xo, _ := g.kernelMem(vec(n, g.Pick(0, 5, 5)), nil, vec(n, g.Pick(0, 5)), lay)
					emit(M{"k": "addMul10VVW", "mem": mem, "zo": zo, "xo": xo, "n": n, "y": y})
				}
				if y != "0" {
					yv := bigOf(y)
					xn := new(big.Int).Rand(g.R, yv)
					if g.Bool() {
						xn.Sub(yv, big.NewInt(1))
					}
					mem, zo, xo, _ := g.kernelMem(vec(n, g.Pick(0, 5, 5)), nil, vec(n, 5), lay)
					emit(M{"k": "div10VWW", "mem": mem, "zo": zo, "xo": xo, "n": n, "y": y, "r": xn.String()})
				}
			}
		}
	}
	// the division-by-10^k tables themselves (checked against the Granlund-Montgomery sufficient condition)
	g.Emit(M{"op": "K.tables"})
	// scalar kernels
	edge := []string{"0", "1", "2", wordMax, "9999999999999999998", "5000000000000000000", "1000000000000000000", "8446744073709551616", "8446744073709551615", "4294967296",
		// around 2^63 and at the top of the 64-bit range (div10W takes any 64-bit low word; the high word goes up to base-1)
		"9223372036854775808", "9223372036854775809", "9223372036854775807", "9500000000000000000", "8500000000000000001"}
	// any 64-bit value (not a decimal word): the low word of div10W's dividend
	edge64 := []string{"18446744073709551615", "18446744073709551614", "18000000000000000000", "17846744073709551616", "17846744073709551615", "10000000000000000000", "9223372036854775808"}
	nsc := 400
	if thor {
		nsc = 5000
	}
	pick := func() string {
		if g.Bool() {
			return edge[g.R.Intn(len(edge))]
		}
		return g.word()
	}
	for i := 0; i < nsc; i++ {
		emit(M{"k": "mul10WW", "mem": []any{}, "zo": 0, "xo": 0, "n": 0, "y": pick(), "r": pick()})
		emit(M{"k": "mulAdd10WWW", "mem": []any{}, "zo": 0, "xo": 0, "n": 0, "y": pick(), "r": pick(), "w": pick()})
		// div10W: n1 < 10^19, n0 any 64-bit word
		emit(M{"k": "div10W", "mem": []any{}, "zo": 0, "xo": 0, "n": 0, "y": pick(), "r": g.PickS(pick(), edge64[g.R.Intn(len(edge64))], wstr(g.R.Uint64()))})
		if i%4 == 0 { // the corner where a quotient estimate without the sign adjustment is two too small: high word above 8.5e18, low word near 2^64
			hi := new(big.Int).Add(bigOf("8500000000000000000"), new(big.Int).Rand(g.R, bigOf("1500000000000000000")))
			lo := new(big.Int).Sub(bigOf("18446744073709551615"), new(big.Int).Rand(g.R, bigOf("700000000000000000")))
			emit(M{"k": "div10W", "mem": []any{}, "zo": 0, "xo": 0, "n": 0, "y": hi.String(), "r": lo.String()})
		}
		// div10WW: u1 < v
		v := pick()
		if v == "0" {
			v = "7"
		}
		u1 := new(big.Int).Rand(g.R, bigOf(v))
		emit(M{"k": "div10WW", "mem": []any{}, "zo": 0, "xo": 0, "n": 0, "y": u1.String(), "r": pick(), "w": v})
	}
	if g.Pending() > 0 {
		out = append(out, g.Flush("kernel"))
	}
	return out
}
