package gen

import (
	"math"
	"math/big"
	"strconv"
	"strings"
)

// f64bits picks a float64 bit pattern.
func (g *G) f64bits() uint64 {
	if g.R.Intn(4) == 0 {
		// integers and short dyadic fractions: exact values with short decimal expansions
		v := float64(g.R.Int63n(1 << uint(1+g.R.Intn(53))))
		if g.Bool() {
			v = math.Ldexp(v, -g.R.Intn(12))
		}
		if g.Bool() {
			v = -v
		}
		return math.Float64bits(v)
	}
	var e, m uint64
	switch g.R.Intn(8) {
	case 0:
		e = 0 // subnormals and zero
	case 1:
		e = 2047 // inf / nan
	case 2:
		e = uint64(g.Pick(1, 2, 2046, 2045, 1023, 1022, 1075, 1076, 1074))
	default:
		e = uint64(g.R.Intn(2047))
	}
	switch g.R.Intn(6) {
	case 0:
		m = 0
	case 1:
		m = 1
	case 2:
		m = 1<<52 - 1
	case 3:
		m = 1 << 51
	default:
		m = g.R.Uint64() & (1<<52 - 1)
	}
	if e == 2047 && g.R.Intn(3) != 0 {
		m = 0 // mostly infinities, some NaNs
	}
	b := e<<52 | m
	if g.Bool() {
		b |= 1 << 63
	}
	return b
}

// decimalOfRat renders num/den (den = 2^k) exactly as a decimal literal's digits and exponent.
func decDigitsOf(v *big.Rat) (string, int64) {
	// v = n / 2^k = n * 5^k / 10^k
	n := new(big.Int).Set(v.Num())
	d := v.Denom()
	k := d.BitLen() - 1
	n.Mul(n, new(big.Int).Exp(big.NewInt(5), big.NewInt(int64(k)), nil))
	s := n.String()
	e := int64(len(s)) - int64(k)
	s = strings.TrimRight(s, "0")
	if s == "" {
		s = "0"
	}
	return s, e
}

// bigFloatArgs fills in the description of a big.Float of precision fprec: zero, infinity or an odd
// mantissa times a power of two.
func (g *G) bigFloatArgs(s M, fprec int) {
	s["fprec"], s["fmode"] = fprec, g.R.Intn(6)
	switch g.R.Intn(10) {
	case 0:
		s["fk"], s["fneg"], s["fm"], s["fe2"] = "zero", g.Bool(), "0", 0
	case 1:
		s["fk"], s["fneg"], s["fm"], s["fe2"] = "inf", g.Bool(), "0", 0
	default:
		m := new(big.Int).Rand(g.R, new(big.Int).Lsh(big.NewInt(1), uint(fprec)))
		m.SetBit(m, 0, 1) // odd, so that it is the minimal mantissa
		e2 := g.R.Intn(401) - 200
		if g.R.Intn(5) == 0 {
			e2 = g.R.Intn(20001) - 10000
		}
		s["fk"], s["fneg"], s["fm"], s["fe2"] = "fin", g.Bool(), m.String(), e2
	}
}

// Float generates the C15 programs.
func Float(g *G, n int) []Program {
	var out []Program
	for i := 0; i < n; i++ {
		switch k := g.R.Intn(100); {
		case k < 25: // SetFloat64 of bit patterns, receiver precision 0 / small / large enough for the full expansion
			p := g.Pick(0, 0, 1, 5, 15, 16, 17, 18, 30, 60, 400, 800)
			g.Receiver("r2", p, g.Mode())
			g.Emit(M{"op": "SetFloat64", "z": "r2", "bits": strconv.FormatUint(g.f64bits(), 10)})
		case k < 40: // SetFloat of big.Float values of precision 1..2000 bits
			fprec := g.Pick(1, 2, 24, 53, 64, 65, 100, 128, 1+g.R.Intn(300))
			if g.Thor && g.R.Intn(5) == 0 {
				fprec = 300 + g.R.Intn(1700)
			}
			s := M{"op": "SetFloat", "z": "r2"}
			g.bigFloatArgs(s, fprec)
			g.Receiver("r2", g.Pick(0, 0, 1, 5, 17, 34, 100, 700), g.Mode())
			g.Emit(s)
		case k < 75: // Float64 / Float32 of Decimals near representable values, midpoints, binade and decade crossings
			var f float64
			switch g.R.Intn(4) {
			case 0:
				f = math.Float64frombits(g.f64bits() &^ (1 << 63))
			case 1:
				f = float64(math.Float32frombits(uint32(g.R.Uint64()) &^ (1 << 31)))
			default:
				f = math.Ldexp(1+g.R.Float64(), g.R.Intn(200)-100)
			}
			if math.IsNaN(f) || math.IsInf(f, 0) {
				f = math.MaxFloat64
			}
			if f == 0 {
				f = math.SmallestNonzeroFloat64
			}
			r := new(big.Rat).SetFloat64(f)
			// neighbour (towards the next float) and the midpoint between them
			next := math.Nextafter(f, math.Inf(1))
			var v *big.Rat
			switch g.R.Intn(5) {
			case 0:
				v = r // exactly representable
			case 1, 2: // exact midpoint between two adjacent doubles (or floats), +- a tiny amount
				if math.IsInf(next, 0) {
					v = r
				} else {
					v = new(big.Rat).Add(r, new(big.Rat).SetFloat64(next))
					v.Quo(v, big.NewRat(2, 1))
				}
			default: // midpoint of the 64-bit intermediate grid: the double-rounding trigger
				if math.IsInf(next, 0) {
					v = r
				} else {
					d := new(big.Rat).Sub(new(big.Rat).SetFloat64(next), r)
					d.Mul(d, big.NewRat(int64(1+2*g.R.Intn(2048)), 4096)) // odd multiples of ulp/4096
					v = new(big.Rat).Add(r, d)
				}
			}
			digits, e := decDigitsOf(v)
			switch g.R.Intn(4) {
			case 0:
				digits += strings.Repeat("0", g.R.Intn(30)) + "1" // just above
			case 1:
				if len(digits) > 1 { // just below: decrement the last digit and append nines
					b := []byte(digits)
					if b[len(b)-1] > '0' {
						b[len(b)-1]--
						digits = string(b) + strings.Repeat("9", 1+g.R.Intn(30))
					}
				}
			}
			digits = strings.TrimLeft(digits, "0")
			if digits == "" {
				digits = "1"
			}
			g.Load("r0", g.Bool(), digits, e, 0, g.Mode())
			g.Emit(M{"op": "Float64", "x": "r0"})
			g.Emit(M{"op": "Float32", "x": "r0"})
		case k < 85: // Float64/Float32 of arbitrary Decimals incl. far out of range and specials
			switch g.R.Intn(6) {
			case 0:
				g.loadClass("r0", classes[g.R.Intn(6)], g.R.Intn(3))
			default:
				g.Load("r0", g.Bool(), g.Digits(g.Len()), int64(g.Pick(0, 1, -1, 38, 39, -37, -45, 308, 309, 310, -307, -323, -324, -325, 400, -400, g.R.Intn(700)-350)), 0, g.Mode())
			}
			g.Emit(M{"op": "Float64", "x": "r0"})
			g.Emit(M{"op": "Float32", "x": "r0"})
		default: // Float into a big.Float of given precision
			switch g.R.Intn(8) {
			case 0:
				g.loadClass("r0", classes[g.R.Intn(6)], 0)
			default:
				g.Load("r0", g.Bool(), g.Digits(g.Len()), int64(g.R.Intn(801)-400), 0, g.Mode())
			}
			s := M{"op": "Float", "x": "r0"}
			if g.R.Intn(4) != 0 {
				s["fprec"] = g.Pick(1, 24, 53, 64, 100, 200, 1+g.R.Intn(500))
				s["fmode"] = g.R.Intn(6)
			}
			g.Emit(s)
		}
		if g.Pending() >= 150 {
			out = append(out, g.Flush("float"))
		}
	}
	out = append(out, BinaryBoundary(g, "float")...)
	if g.Pending() > 0 {
		out = append(out, g.Flush("float"))
	}
	return out
}

// BinaryBoundary: decimal-to-binary radix conversion at the lengths where floor(d*log2(10)) is a multiple of the
// machine word (d = 58, 135, 212, 289 digits; 1368 digits = 72 full words): a value that reaches 2^(that multiple)
// needs one more binary word than its smaller neighbours. Short mantissas with such an exponent and full-length
// mantissas, both sides of the power of two; Float64/Float32/Float for kind "float", Int/Rat/Int64 for "conv".
func BinaryBoundary(g *G, kind string) []Program {
	var out []Program
	for _, d := range []int{58, 135, 212, 289, 1368, 57, 59} {
		for _, lead := range []string{"9", "7", "63", "62", "1"} {
			for shape := 0; shape < 3; shape++ {
				var digits string
				e := int64(d)
				switch shape {
				case 0: // short mantissa, exponent d: leading digits followed by zeros up to d digits
					digits = lead
				case 1: // full-length integer
					digits = lead + g.Digits(d-len(lead))
				default: // a fraction with d significant digits
					digits = lead + g.Digits(d-len(lead))
					e = int64(g.R.Intn(3))
				}
				g.Load("r0", g.Bool(), digits, e, 0, g.Mode())
				if kind == "float" {
					g.Emit(M{"op": "Float64", "x": "r0"})
					g.Emit(M{"op": "Float32", "x": "r0"})
					g.Emit(M{"op": "Float", "x": "r0", "fprec": g.Pick(24, 53, 64, 200), "fmode": g.R.Intn(6)})
				} else {
					g.Emit(M{"op": "Int", "x": "r0", "into": g.PickS("", "12345678901234567890123456789")})
					g.Emit(M{"op": "Rat", "x": "r0", "into": g.PickS("", "5")})
					g.Emit(M{"op": "Int64", "x": "r0"})
					g.Emit(M{"op": "IsInt", "x": "r0"})
				}
				if g.Pending() >= 150 {
					out = append(out, g.Flush(kind))
				}
			}
		}
	}
	return out
}
