package gen

import "strings"

// Cmp generates the C16 programs: ordered pairs and triples compared in every direction.
func Cmp(g *G, n int) []Program {
	var out []Program
	for i := 0; i < n; i++ {
		regs := []string{"r0", "r1", "r2"}
		base := g.Digits(g.Len())
		e := g.Exp()
		if g.R.Intn(8) == 0 {
			e = g.ExtremeExp()
		}
		neg := g.Bool()
		// word-aligned family: the same top words, then one lower word from a small alphabet around the places where a
		// 64-bit word comparison can go wrong (10^19 > 2^63: differences of two valid words do not fit an int64)
		if i%10 == 3 {
			// exponents exactly at the ends of the range against zeros, against each other and against their negations
			ee := g.PickI64(-2147483648, -2147483648, 2147483647, -2147483647)
			d := g.Digits(1 + g.R.Intn(25))
			g.Load("r0", false, d, ee, 0, g.Mode())
			g.Load("r1", true, d, ee, 0, g.Mode())
			g.LoadSpecial("r2", "zero", g.Bool(), g.Pick(0, 5), g.Mode())
			for _, a := range regs {
				g.Emit(M{"op": "Preds", "x": a})
				for _, b := range regs {
					g.Emit(M{"op": "Cmp", "x": a, "y": b})
				}
			}
			if g.Pending() >= 150 {
				out = append(out, g.Flush("cmp"))
			}
			continue
		}
		if i%10 == 7 {
			// infinities (and zeros) that used to hold different finite values: the stale mantissa and exponent must not count
			form := g.PickS("inf", "inf", "zero")
			sneg := g.Bool()
			g.Load("r0", g.Bool(), g.Digits(1+g.R.Intn(30)), g.Exp(), 0, g.Mode())
			g.Load("r1", g.Bool(), g.Digits(1+g.R.Intn(30)), g.Exp(), 0, g.Mode())
			g.Emit(M{"op": "New", "z": "r2"})
			for _, r := range regs {
				if form == "inf" {
					g.Emit(M{"op": "SetInf", "z": r, "neg": sneg})
				} else {
					g.Emit(M{"op": "SetPrec", "z": r, "p": 0}) // SetPrec(0) turns a finite value into a zero of its sign
				}
			}
			for _, a := range regs {
				g.Emit(M{"op": "Preds", "x": a})
				for _, b := range regs {
					g.Emit(M{"op": "Cmp", "x": a, "y": b})
				}
			}
			if g.Pending() >= 150 {
				out = append(out, g.Flush("cmp"))
			}
			continue
		}
		aligned := g.R.Intn(4) == 0
		top := g.Digits(19 * g.Pick(1, 1, 2, 3))
		for j, r := range regs {
			if aligned {
				low := g.PickS("", "", "9999999999999999999", "9223372036854775808", "9223372036854775807", "0000000000000000001",
					"5000000000000000000", "9999999999999999998", "0776627963145224192")
				mid := strings.Repeat("0", 19*g.Pick(0, 0, 1))
				d := top
				if low != "" {
					d = top + mid + low
				}
				g.Load(r, neg, d, e, len(d)+g.Pick(0, 19), g.Mode())
				continue
			}
			switch k := g.R.Intn(12); {
			case k == 0:
				g.LoadSpecial(r, "zero", g.Bool(), g.Pick(0, 5), g.Mode())
			case k == 1:
				g.LoadSpecial(r, "inf", g.Bool(), g.Pick(0, 5), g.Mode())
			case k < 5: // equal to base up to trailing zero words / digits: same value, different precision and buffer length
				d := base
				g.Load(r, neg != (g.R.Intn(6) == 0), d, e, len(d)+g.Pick(0, 1, 19, 38, 57), g.Mode())
			case k < 8: // differs only in a far digit of a longer mantissa
				d := base + strings.Repeat("0", g.Pick(0, 1, 18, 19, 20, 40)) + g.PickS("1", "9", "5")
				g.Load(r, neg, d, e, 0, g.Mode())
			case k < 9: // one unit less in the last digit, longer tail of nines
				d := base
				if d[len(d)-1] > '0' {
					d = d[:len(d)-1] + string(d[len(d)-1]-1) + strings.Repeat("9", g.Pick(1, 19, 38))
				}
				g.Load(r, neg, d, e, 0, g.Mode())
			case k < 10: // neighbouring exponent
				g.Load(r, neg, base, e+int64(g.Pick(-1, 1)), 0, g.Mode())
			case k < 11: // exponents at the opposite ends of the int32 range (their difference overflows int32)
				g.Load(r, neg != (g.R.Intn(4) == 0), g.Digits(1+g.R.Intn(20)), g.ExtremeExp(), 0, g.Mode())
			default:
				g.Load(r, g.Bool(), g.Digits(g.Len()), e+int64(g.R.Intn(3)-1), 0, g.Mode())
			}
			_ = j
		}
		// attributes vary independently of the value
		if g.Bool() {
			g.Emit(M{"op": "SetMode", "z": g.PickS(regs...), "m": g.Mode()})
		}
		for _, a := range regs {
			g.Emit(M{"op": "Preds", "x": a})
			for _, b := range regs {
				g.Emit(M{"op": "Cmp", "x": a, "y": b})
			}
		}
		if g.Pending() >= 150 {
			out = append(out, g.Flush("cmp"))
		}
	}
	if g.Pending() > 0 {
		out = append(out, g.Flush("cmp"))
	}
	return out
}
