package gen

import (
	"math/big"
	"strconv"
	"strings"
)

// aliasShape picks registers for (z, x, y): x is in r0, y in r1; returns names to use.
// shapes: distinct, z=x, z=y, x=y, z=x=y.
func (g *G) aliasShape() (z, x, y string) {
	switch g.R.Intn(8) {
	case 0:
		return "r0", "r0", "r1"
	case 1:
		return "r1", "r0", "r1"
	case 2:
		return "r2", "r0", "r0"
	case 3:
		return "r0", "r0", "r0"
	default:
		return "r2", "r0", "r1"
	}
}

// binop emits one binary operation with receiver set-up. When the receiver is an operand its
// precision/mode are applied to that register (after loading).
func (g *G) binop(op string, p, m int) {
	z, x, y := g.aliasShape()
	if z == "r2" {
		g.Receiver("r2", p, m)
	} else {
		// aliased receiver: SetPrec would round the operand; widen instead when needed
		g.Emit(M{"op": "SetMode", "z": z, "m": m})
	}
	g.Emit(M{"op": op, "z": z, "x": x, "y": y})
}

var ops4 = []string{"Add", "Sub", "Mul", "Quo"}

// nines returns a string of n nines.
func rep(c string, n int) string {
	if n <= 0 {
		return ""
	}
	return strings.Repeat(c, n)
}

// roundingTail returns digits to follow a p-digit prefix so that the rounding decision is delicate.
func (g *G) roundingTail() string {
	far := g.Pick(0, 1, 2, 17, 18, 19, 20, 36, 37, 38, 39, 40, 57, 76)
	switch g.R.Intn(7) {
	case 0:
		return "5" // exact tie
	case 1:
		return "5" + rep("0", far) + "1" // just above a tie
	case 2:
		return "4" + rep("9", far+1) // just below a tie
	case 3:
		return rep("0", far) + "1" // sticky only
	case 4:
		return rep("9", far+1) // nines
	case 5:
		return "50" + rep("0", far) // tie with trailing zeros
	default:
		return g.Digits(1 + g.R.Intn(5))
	}
}

// targetResult builds the digit string of an exact result whose first p digits are followed by a
// delicate tail; prefix patterns include all nines (carry) and even/odd last digits.
func (g *G) targetResult(p int) string {
	var pre string
	switch g.R.Intn(5) {
	case 0:
		pre = rep("9", p)
	case 1:
		pre = g.Digits(p)
		if p > 1 {
			pre = pre[:p-1] + g.PickS("0", "1", "2", "8", "9")
		}
	default:
		pre = g.Digits(p)
	}
	return pre + g.roundingTail()
}

// Round generates the C01/C02 programs: n cases of Add/Sub/Mul/Quo/Set/SetPrec/Neg/Abs.
func Round(g *G, n int) []Program {
	var out []Program
	// every branch the evidence must show, once per mode and sign, whatever the seed draws afterwards: results that leave
	// the exponent range through each of the four operations (by cancellation for sums)
	for m := 0; m < 6; m++ {
		for _, neg := range []bool{false, true} {
			for _, c := range [][5]string{
				{"Add", "11", "-2147483648", "10", "-2147483648"}, // y gets the other sign below: the difference underflows
				{"Mul", "5", "2147483647", "5", "10"}, {"Mul", "5", "-2147483648", "5", "-10"},
				{"Quo", "5", "2147483647", "5", "-10"}, {"Quo", "5", "-2147483648", "5", "10"},
				{"Sub", "123456", "3", "1234", "1"}, {"Add", "999999", "0", "9", "-5"},
			} {
				ex, _ := strconv.ParseInt(c[2], 10, 64)
				ey, _ := strconv.ParseInt(c[4], 10, 64)
				g.Load("r0", neg, c[1], ex, 0, g.Mode())
				g.Load("r1", neg != (c[0] == "Add" && c[1] == "11"), c[3], ey, 0, g.Mode())
				g.Receiver("r2", 5, m)
				g.Emit(M{"op": c[0], "z": "r2", "x": "r0", "y": "r1"})
			}
		}
		out = append(out, g.Flush("round"))
	}
	// operands of different word counts aligned on a word boundary, the longer one made of all-nines words, a carry coming
	// out of the common part and running through every word above it (the vector kernels are called with slices of
	// different origin and must stop where the shorter one ends); also borrows through all-zero words
	for k := 2; k <= 4; k++ {
		for j := 0; j < k; j++ {
			for _, low := range []string{"1000000000000000000", "9999999999999999999", "5000000000000000001"} {
				x := rep("9", 19*k)
				if g.Bool() {
					x = rep("9", 19*(k-1)) + g.Digits(19) // the carry stops in the low word or not
				}
				for _, op := range []string{"Add", "Sub"} {
					g.Load("r0", false, x, int64(19*k), 0, g.Mode())
					g.Load("r1", op == "Sub", low, int64(19*(j+1)), 0, g.Mode())
					z := g.PickS("r2", "r0", "r1")
					if z == "r2" {
						g.Receiver("r2", g.Pick(19*k+1, 19*k+1, 19*k, 5), g.Mode())
					}
					g.Emit(M{"op": op, "z": z, "x": "r0", "y": "r1"})
					g.Emit(M{"op": op, "z": "r3", "x": "r1", "y": "r0"})
				}
			}
		}
		out = append(out, g.Flush("round"))
	}
	for i := 0; i < n; i++ {
		p, m := g.Prec(), g.Mode()
		switch k := g.R.Intn(100); {
		case k < 22: // random operands, random op
			op := ops4[g.R.Intn(4)]
			e1 := g.Exp()
			e2 := g.Exp()
			if (op == "Add" || op == "Sub") && (e1-e2 > 2000 || e2-e1 > 2000) {
				// the library itself allocates a buffer as long as the exponent gap: keep it bounded
				e2 = e1 + int64(g.R.Intn(801)-400)
				if e2 > 2147483647 {
					e2 = 2147483647
				}
				if e2 < -2147483648 {
					e2 = -2147483648
				}
			}
			g.Load("r0", g.Bool(), g.Digits(g.Len()), e1, 0, g.Mode())
			g.Load("r1", g.Bool(), g.Digits(g.Len()), e2, 0, g.Mode())
			g.binop(op, p, m)
		case k < 42: // Add/Sub with a targeted exact result: R = x + y or x - y
			res := g.targetResult(p)
			R := bigOf(res)
			// x random below R (same scale), y = R - x  => x + y = R ; or x = R + y => x - y = R
			y := new(big.Int).Rand(g.R, R)
			if y.Sign() == 0 {
				y.SetInt64(1)
			}
			e := g.Exp()
			if g.Bool() {
				x := new(big.Int).Sub(R, y)
				if x.Sign() == 0 {
					x.SetInt64(1)
				}
				neg := g.Bool()
				g.LoadInt("r0", neg, x, e, 0, g.Mode())
				g.LoadInt("r1", neg, y, e, 0, g.Mode())
				g.binop("Add", p, m)
			} else {
				x := new(big.Int).Add(R, y)
				neg := g.Bool()
				g.LoadInt("r0", neg, x, e, 0, g.Mode())
				g.LoadInt("r1", neg, y, e, 0, g.Mode())
				g.binop("Sub", p, m)
			}
		case k < 50: // cancellation: operands share leading digits
			l := g.Len() + 1
			a := g.Digits(l)
			keep := 1 + g.R.Intn(l)
			if g.R.Intn(4) == 0 {
				keep = l // identical magnitudes: exact cancellation
			}
			b := a[:keep]
			if keep < l {
				b += g.Digits(l - keep)
			}
			e := g.Exp()
			if g.R.Intn(3) == 0 { // cancellation at the bottom of the exponent range: underflow of a sum
				e = -2147483648 + int64(g.R.Intn(l+2))
			}
			g.Load("r0", false, a, e, 0, g.Mode())
			g.Load("r1", g.Bool(), b, e, 0, g.Mode())
			g.binop(g.PickS("Add", "Sub"), p, m)
		case k < 60: // exponent gaps around the precision
			gap := int64(g.Pick(p-1, p, p+1, p+2, 2*p, p+19, p+38, 300))
			if g.Thor && g.R.Intn(4) == 0 {
				gap = int64(1000 + g.R.Intn(9000))
			}
			e := g.Exp()
			la, lb := 1+g.R.Intn(p+2), 1+g.R.Intn(p+2)
			g.Load("r0", g.Bool(), g.Digits(la), e, 0, g.Mode())
			g.Load("r1", g.Bool(), g.Digits(lb), e-gap, 0, g.Mode())
			if g.Bool() {
				g.Emit(M{"op": "Copy", "z": "r3", "x": "r0"})
				g.Emit(M{"op": "Copy", "z": "r0", "x": "r1"})
				g.Emit(M{"op": "Copy", "z": "r1", "x": "r3"})
			}
			g.binop(g.PickS("Add", "Sub"), p, m)
		case k < 72: // exact quotients and quotient ties: x = q * y with patterned y
			var q *big.Int
			if g.Bool() {
				q = bigOf(g.targetResult(p))
			} else {
				q = bigOf(g.Digits(1 + g.R.Intn(p+3)))
			}
			y := bigOf(g.Digits(g.Pick(1, 19, 20, 38, 39, 57, 76, 95) + g.R.Intn(3)))
			x := new(big.Int).Mul(q, y)
			if g.R.Intn(4) == 0 { // a remainder far down
				x.Mul(x, new(big.Int).Exp(big.NewInt(10), big.NewInt(int64(g.Pick(1, 19, 40))), nil))
				x.Add(x, big.NewInt(1))
			}
			g.LoadInt("r0", g.Bool(), x, g.Exp(), 0, g.Mode())
			g.LoadInt("r1", g.Bool(), y, g.Exp(), 0, g.Mode())
			g.binop("Quo", p, m)
		case k < 80: // products with a targeted result: R = x * y for small y
			R := bigOf(g.targetResult(p))
			y := big.NewInt(int64(g.Pick(1, 2, 4, 5, 8, 16, 25, 125, 3, 7, 11)))
			x, r := new(big.Int).QuoRem(R, y, new(big.Int))
			if r.Sign() != 0 || x.Sign() == 0 {
				x = R
				y = big.NewInt(1)
			}
			g.LoadInt("r0", g.Bool(), x, g.Exp(), 0, g.Mode())
			g.LoadInt("r1", g.Bool(), y, g.Exp(), 0, g.Mode())
			g.binop("Mul", p, m)
		case k < 88: // results straddling the exponent range
			e1, e2 := g.ExtremeExp(), g.ExtremeExp()
			g.Load("r0", g.Bool(), g.Digits(1+g.R.Intn(p+2)), e1, 0, g.Mode())
			g.Load("r1", g.Bool(), g.Digits(1+g.R.Intn(p+2)), e2, 0, g.Mode())
			op := ops4[g.R.Intn(4)]
			if op == "Add" || op == "Sub" {
				// keep the alignment shift small: same end of the range
				d := e1 - e2
				if d > 500 || d < -500 {
					g.Load("r1", g.Bool(), g.Digits(1+g.R.Intn(p+2)), e1-int64(g.R.Intn(40)), 0, g.Mode())
				}
			}
			g.binop(op, p, m)
		default: // single-operand: Set, SetPrec, Neg, Abs with targeted digits
			var d string
			if g.Bool() {
				d = strings.TrimRight(g.targetResult(p), "0")
				if d == "" {
					d = "5"
				}
			} else {
				d = g.Digits(g.Len())
			}
			e := g.Exp()
			if g.R.Intn(6) == 0 {
				e = g.ExtremeExp()
			}
			g.Load("r0", g.Bool(), d, e, 0, g.Mode())
			switch op := g.PickS("Set", "SetPrec", "Neg", "Abs"); op {
			case "SetPrec":
				g.Emit(M{"op": "SetMode", "z": "r0", "m": m})
				g.Emit(M{"op": "SetPrec", "z": "r0", "p": p})
			default:
				z := "r2"
				if g.R.Intn(5) == 0 {
					z = "r0"
					g.Emit(M{"op": "SetMode", "z": z, "m": m})
				} else {
					g.Receiver(z, p, m)
				}
				g.Emit(M{"op": op, "z": z, "x": "r0"})
			}
		}
		if g.Pending() >= 120 {
			out = append(out, g.Flush("round"))
		}
	}
	if g.Pending() > 0 {
		out = append(out, g.Flush("round"))
	}
	return out
}
