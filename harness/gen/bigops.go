package gen

// BigOps generates public-API Mul/Quo on operands of hundreds to thousands of digits with lowered
// thresholds (C06: "Mul and Quo remain correctly rounded ... at every operand size").
func BigOps(g *G, nprog int) []Program {
	var out []Program
	for p := 0; p < nprog; p++ {
		for i := 0; i < 12; i++ {
			lx, ly := 200+g.R.Intn(1500), 200+g.R.Intn(1500)
			if g.Thor && g.R.Intn(4) == 0 {
				lx, ly = 2000+g.R.Intn(6000), 1900+g.R.Intn(3000)
			}
			g.Load("r0", g.Bool(), g.Digits(lx), g.Exp(), 0, g.Mode())
			g.Load("r1", g.Bool(), g.Digits(ly), g.Exp(), 0, g.Mode())
			op := g.PickS("Mul", "Quo", "Quo")
			g.Receiver("r2", g.Pick(50, 400, lx, lx+ly, 2500), g.Mode())
			if g.R.Intn(5) == 0 {
				g.Emit(M{"op": "Mul", "z": "r2", "x": "r0", "y": "r0"}) // squaring path
			} else {
				g.Emit(M{"op": op, "z": "r2", "x": "r0", "y": "r1"})
			}
		}
		pr := g.Flush("bigops")
		pr.Thr = thresholdSets[p%len(thresholdSets)]
		out = append(out, pr)
	}
	return out
}
