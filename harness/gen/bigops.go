package gen

// BigOps generates public-API Mul/Quo on operands of hundreds to thousands of digits with lowered
// thresholds (C06: "Mul and Quo remain correctly rounded ... at every operand size").
func BigOps(g *G, nprog int) []Program {
	var out []Program
	for p := 0; p < nprog; p++ {
		for i := 0; i < 12; i++ {
			lx, ly := 200+g.R.Intn(1500), 200+g.R.Intn(1500)
			if g.Thor && g.R.Intn(4) == 0 {
				lx, ly = 2000+g.R.Intn(6000), 1900+g.R.Intn(3000)
			}
			g.Load("r0", g.Bool(), g.Digits(lx), g.Exp(), 0, g.Mode())
			g.Load("r1", g.Bool(), g.Digits(ly), g.Exp(), 0, g.Mode())
			op := g.PickS("Mul", "Quo", "Quo")
			g.Receiver("r2", g.Pick(50, 400, lx, lx+ly, 2500), g.Mode())
			if g.R.Intn(5) == 0 {
				g.Emit(M{"op": "Mul", "z": "r2", "x": "r0", "y": "r0"}) // squaring path
			} else {
				g.Emit(M{"op": op, "z": "r2", "x": "r0", "y": "r1"})
			}
		}
		pr := g.Flush("bigops")
		pr.Thr = thresholdSets[p%len(thresholdSets)]
		out = append(out, pr)
	}
	return out
}

// BigQuo generates quotients by divisors of at least 100 words (recursive division) whose digit patterns make
// block quotient estimates too large (low half all nines, high half 5000...), at precisions that need
// several quotient blocks, into receivers with dirty buffers.
func BigQuo(g *G, n int) []Program {
	var out []Program
	for i := 0; i < n; i++ {
		words := 100 + g.R.Intn(40)
		if g.Thor && g.R.Intn(3) == 0 {
			words = 200 + g.R.Intn(100)
		}
		nd := words * 19
		var y string
		switch g.R.Intn(4) {
		case 0:
			y = "5" + rep("0", nd/2-1) + rep("9", nd-nd/2)
		case 1:
			y = rep("9", nd/2) + rep("0", nd-nd/2-1) + "1"
		case 2:
			y = g.PickS("5", "9", "1") + g.Digits(nd-1)
		default:
			y = g.Digits(nd)
		}
		x := "1"
		if g.Bool() {
			x = g.Digits(nd + g.R.Intn(nd))
		}
		fixedP := 0
		if i < 4 {
			// always present: 1 / 0.5000...0999...9 with the high part 1/2 or 1/4 of the divisor, quotient as long as
			// the divisor: the quotient estimate of a non-final block of the recursive division has to be corrected
			words = []int{128, 128, 110, 100}[i]
			nd = words * 19
			h := []int{64, 32, 55, 30}[i] * 19
			y = "5" + rep("0", h-1) + rep("9", nd-h)
			x = "1"
			fixedP = nd
		}
		g.Load("r0", g.Bool(), x, g.Exp(), 0, g.Mode())
		g.Load("r1", g.Bool(), y, g.Exp(), 0, g.Mode())
		// receiver with a dirty buffer of full length, then the precision under test
		p := g.Pick(nd/2+60, nd, nd+nd/2, 2*nd)
		if fixedP != 0 {
			p = fixedP
		}
		g.Load("r2", g.Bool(), g.Digits(2*nd), g.Exp(), 0, g.Mode())
		g.Emit(M{"op": "SetMode", "z": "r2", "m": g.Mode()})
		g.Emit(M{"op": "SetPrec", "z": "r2", "p": p})
		z := g.PickS("r2", "r2", "r2", "r0", "r1")
		g.Emit(M{"op": "Quo", "z": z, "x": "r0", "y": "r1"})
		if g.Pending() >= 20 {
			out = append(out, g.Flush("bigquo"))
		}
	}
	if g.Pending() > 0 {
		out = append(out, g.Flush("bigquo"))
	}
	return out
}
