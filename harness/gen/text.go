package gen

import (
	"fmt"
	"math"
	"math/big"
	"strconv"
	"strings"
)

// loadFloat64 loads the exact decimal value of a finite float64 f (> 0 or < 0) with mode ToNearestEven
// and returns its bits, so that strconv/fmt on f can serve as reference output.
func (g *G) loadFloat64(r string, f float64) string {
	v := new(big.Rat).SetFloat64(math.Abs(f))
	d, e := decDigitsOf(v)
	g.Load(r, f < 0, strings.TrimLeft(d, "0"), e, 0, 0)
	return strconv.FormatUint(math.Float64bits(f), 10)
}

// shortFloat picks a float64 with a short exact decimal expansion (k / 2^m, integers, halves...).
func (g *G) shortFloat() float64 {
	var f float64
	switch g.R.Intn(6) {
	case 0:
		f = float64(g.R.Intn(100000)) / float64(int(1)<<uint(g.R.Intn(12)))
	case 1:
		f = float64(g.R.Int63n(1 << 53))
	case 2:
		f = math.Ldexp(float64(1+g.R.Intn(999)), g.R.Intn(80)-40)
	case 3:
		f = []float64{0.5, 0.25, 0.125, 1.5, 2.5, 0.0625, 9.5, 99.5, 0.95, 0.0087890625, 0.6, 1e21, 1e20, 123456789, 100, 1e-5, 0.0001, 0.00001, 1e6, 1e-7, 999999.5, 9.9999995e6}[g.R.Intn(22)]
	default:
		f = math.Ldexp(float64(g.R.Int63n(1<<20)), g.R.Intn(60)-50)
	}
	if f == 0 {
		f = 0.75
	}
	if g.Bool() {
		f = -f
	}
	return f
}

var fmtVerbs = []string{"e", "E", "f", "F", "g", "G", "v"}

// Format generates the C13 programs.
func Format(g *G, n int) []Program {
	var out []Program
	for i := 0; i < n; i++ {
		var ref string // float64 bits when a reference implementation applies
		mode := 0
		bigExp := false // %f prints every digit down to the units: only for moderate exponents
		switch k := g.R.Intn(100); {
		case k < 45: // exactly representable values: strconv / fmt as second implementation (ToNearestEven)
			ref = g.loadFloat64("r0", g.shortFloat())
		case k < 55:
			g.loadClass("r0", g.PickS("+0", "-0", "+inf", "-inf"), 0)
			if g.R.Intn(3) == 0 { // a zero that used to hold something else (stale exponent)
				g.Load("r0", g.Bool(), g.Digits(3), int64(g.Pick(100, -100, 5, 30)), 0, g.Mode())
				g.Emit(M{"op": "Sub", "z": "r0", "x": "r0", "y": "r0"})
			}
		default: // arbitrary Decimals, six modes, delicate digits at the requested position
			mode = g.Mode()
			var d string
			if g.Bool() {
				d = strings.TrimRight(g.targetResult(1+g.R.Intn(12)), "0")
			} else {
				d = g.Digits(g.Len())
			}
			if d == "" {
				d = "5"
			}
			e := int64(g.R.Intn(61) - 30)
			if g.R.Intn(8) == 0 {
				e = g.Exp()
				bigExp = e > 2000 || e < -2000
			}
			g.Load("r0", g.Bool(), d, e, 0, mode)
		}
		// a rounding carry out of the leading digit at the very top (and bottom) of the exponent range: the printed
		// exponent is one more than the largest a Decimal can hold
		if g.R.Intn(12) == 0 {
			mode = g.Mode()
			k := 1 + g.R.Intn(6)
			d := strings.Repeat("9", k) + g.PickS("", "5", "4", "96", "49")
			g.Load("r0", g.Bool(), d, g.PickI64(2147483647, 2147483647, 2147483646, -2147483648), 0, mode)
			ref = ""
			bigExp = true
			g.Emit(M{"op": "Text", "x": "r0", "fmt": g.PickS("e", "E", "g", "G"), "prec": g.R.Intn(k + 2), "pre": ""})
		}
		// %f with the rounding position exactly at, or above, the leading digit: 0 or one unit, decided by
		// the mode and by the comparison with one half (leading digits 5000...0 followed, far away, by something)
		if g.R.Intn(6) == 0 {
			mode = g.Pick(0, 0, 1, g.Mode())
			d := strings.TrimRight(g.roundingTail(), "0")
			if g.Bool() {
				// exactly one half, or one half plus something beyond the first mantissa word(s)
				d = "5" + strings.Repeat("0", g.Pick(0, 17, 18, 19, 37, 38, 40)) + g.PickS("", "1", "7")
				d = strings.TrimRight(d, "0")
			}
			d = strings.TrimLeft(d, "0")
			if d == "" {
				d = "5"
			}
			pr := g.R.Intn(6)
			g.Load("r0", g.Bool(), d, int64(-pr-g.Pick(0, 0, 0, 1, 2)), 0, mode)
			ref = ""
			bigExp = false
			g.Emit(M{"op": "Text", "x": "r0", "fmt": "f", "prec": pr, "pre": ""})
			fs := "%." + strconv.Itoa(pr) + "f"
			g.Emit(M{"op": "Format", "x": "r0", "f": fs, "verb": "f", "plus": false, "space": false, "zero": false, "minus": false,
				"haswidth": false, "width": 0, "hasprec": true, "fprec": pr})
		}
		// several outputs per value
		for j := 0; j < 3; j++ {
			switch g.R.Intn(10) {
			case 0, 1, 2, 3: // Text / Append
				f := g.PickS("e", "E", "f", "g", "G", "p", "b")
				prec := g.Pick(-1, 0, 1, 2, 3, 5, 6, 10, 17, 20, 40, g.R.Intn(41))
				if f == "f" && bigExp {
					f = "e"
				}
				s := M{"op": g.PickS("Text", "Text", "Append"), "x": "r0", "fmt": f, "prec": prec, "pre": g.PickS("", "x=")}
				if ref != "" && f != "p" && f != "b" && prec >= 0 { // "shortest" means something else for a binary float
					s["f64"] = ref
				}
				g.Emit(s)
			case 4:
				g.Emit(M{"op": g.PickS("String", "MarshalText", "MarshalJSON"), "x": "r0"})
			default: // Format through package fmt
				verb := fmtVerbs[g.R.Intn(len(fmtVerbs))]
				if g.R.Intn(10) == 0 {
					verb = g.PickS("s", "b") // verbs without a floating-point counterpart in package fmt (%p never reaches Format: fmt prints the pointer)
				}
				plus, space, zero, minus := g.R.Intn(4) == 0, g.R.Intn(4) == 0, g.R.Intn(3) == 0, g.R.Intn(4) == 0
				hasw, hasp := g.R.Intn(2) == 0, g.R.Intn(2) == 0
				w, p := g.Pick(0, 1, 5, 8, 12, 20, 30), g.Pick(0, 1, 2, 3, 6, 10, 17)
				if verb == "v" {
					plus = false // %+v has a different meaning in fmt (DESIGN 3.6)
				}
				if bigExp && (verb == "f" || verb == "F") {
					verb = "e"
				}
				fs := "%"
				if plus {
					fs += "+"
				}
				if minus {
					fs += "-"
				}
				if space {
					fs += " "
				}
				if zero {
					fs += "0"
				}
				if hasw {
					fs += strconv.Itoa(w)
				}
				if hasp {
					fs += "." + strconv.Itoa(p)
				}
				fs += verb
				s := M{"op": "Format", "x": "r0", "f": fs, "verb": verb, "plus": plus, "space": space, "zero": zero, "minus": minus,
					"haswidth": hasw, "width": w, "hasprec": hasp, "fprec": p}
				if ref != "" && verb != "s" && verb != "p" && verb != "b" && (hasp || (verb != "g" && verb != "G" && verb != "v")) {
					s["f64"] = ref
				}
				g.Emit(s)
			}
		}
		if g.Pending() >= 150 {
			out = append(out, g.Flush("format"))
		}
	}
	if g.Pending() > 0 {
		out = append(out, g.Flush("format"))
	}
	return out
}

// Roundtrip generates the C11 programs: text output with precision -1 parsed back.
func Roundtrip(g *G, n int) []Program {
	var out []Program
	for i := 0; i < n; i++ {
		switch g.R.Intn(10) {
		case 0:
			g.loadClass("r0", g.PickS("+0", "-0", "+inf", "-inf"), 0)
		default:
			l := g.Len()
			if g.R.Intn(15) == 0 {
				l = 1000 + g.R.Intn(4000)
			}
			d := g.Digits(l)
			switch g.R.Intn(4) {
			case 0: // trailing zero words
				d = strings.TrimRight(d, "0")
				if d == "" {
					d = "1"
				}
			case 1: // interior zero words
				if len(d) > 60 {
					d = d[:10] + strings.Repeat("0", g.Pick(19, 38, 40)) + d[10+40:]
				}
			}
			d = strings.TrimRight(d, "0")
			if d == "" {
				d = "7"
			}
			g.Load("r0", g.Bool(), d, g.Exp(), len(d)+g.Pick(0, 0, 1, 19, 38), g.Mode())
		}
		for j := 0; j < 2; j++ {
			via := g.PickS("fmt", "fmt", "fmt", "text", "json")
			f := g.PickS("e", "E", "g", "G", "p", "b")
			// receiver precision at least MinPrec (0 means 34: only when that is enough)
			g.Receiver("r2", 6000, g.Mode())
			g.Emit(M{"op": "TextParse", "x": "r0", "z": "r2", "via": via, "fmt": f})
		}
		// 'f' only with moderate exponents
		if g.R.Intn(3) == 0 {
			g.Load("r1", g.Bool(), strings.TrimRight(g.Digits(1+g.R.Intn(60)), "0")+"1", int64(g.R.Intn(2001)-1000), 0, g.Mode())
			g.Receiver("r2", 3000, g.Mode())
			g.Emit(M{"op": "TextParse", "x": "r1", "z": "r2", "via": "fmt", "fmt": "f"})
		}
		if g.Pending() >= 150 {
			out = append(out, g.Flush("rt"))
		}
	}
	if g.Pending() > 0 {
		out = append(out, g.Flush("rt"))
	}
	return out
}

var litAlphabet = []string{"0", "1", "9", "5", "_", ".", "e", "E", "p", "P", "x", "X", "b", "B", "o", "O", "-", "+", "I", "n", "f", "i", "a", "F", " ", "7", "8", "2"}

// randLiteral builds a structured numeric literal for the given base argument.
func (g *G) randLiteral(base int) string {
	var sb strings.Builder
	if g.R.Intn(3) == 0 {
		sb.WriteString(g.PickS("+", "-"))
	}
	b := base
	if base == 0 {
		switch g.R.Intn(5) {
		case 0:
			sb.WriteString(g.PickS("0x", "0X"))
			b = 16
		case 1:
			sb.WriteString(g.PickS("0b", "0B"))
			b = 2
		case 2:
			sb.WriteString(g.PickS("0o", "0O"))
			b = 8
		default:
			b = 10
		}
	}
	digit := func() string {
		d := g.R.Intn(b)
		return string("0123456789abcdef"[d])
	}
	digits := func(n int) {
		for i := 0; i < n; i++ {
			sb.WriteString(digit())
			if base == 0 && g.R.Intn(12) == 0 && i+1 < n {
				sb.WriteString("_")
			}
		}
	}
	ni, nf := g.R.Intn(8), g.R.Intn(8)
	if g.R.Intn(6) == 0 {
		ni = g.Pick(19, 20, 38, 40, 100)
	}
	digits(ni)
	if g.R.Intn(2) == 0 {
		sb.WriteString(".")
		digits(nf)
	}
	if g.R.Intn(2) == 0 {
		if b == 16 || g.R.Intn(4) == 0 {
			sb.WriteString(g.PickS("p", "P"))
		} else {
			sb.WriteString(g.PickS("e", "E"))
		}
		if g.R.Intn(2) == 0 {
			sb.WriteString(g.PickS("+", "-"))
		}
		sb.WriteString(strconv.Itoa(g.R.Intn(400)))
	}
	return sb.String()
}

// mutate applies one random byte edit to s.
func (g *G) mutate(s string) string {
	c := litAlphabet[g.R.Intn(len(litAlphabet))]
	if len(s) == 0 {
		return c
	}
	i := g.R.Intn(len(s))
	switch g.R.Intn(3) {
	case 0:
		return s[:i] + c + s[i:]
	case 1:
		return s[:i] + s[i+1:]
	default:
		return s[:i] + c + s[i+1:]
	}
}

// ParseAll enumerates EVERY string of up to maxLen characters over a small alphabet of the grammar (the one
// mc/MC_Parse uses at design level) and parses each with base argument 0 - and the prefix-free ones also with
// 2, 8, 10, 16 in rotation: small-scope exhaustive conformance of the real scanner with the recogniser.
func ParseAll(g *G, maxLen int, stride int) []Program {
	var out []Program
	alpha := []string{"0", "1", "9", "a", "_", ".", "e", "p", "x", "b", "-", "+"}
	bases := []int{2, 8, 10, 16}
	cnt := 0
	var rec func(s string)
	rec = func(s string) {
		if len(s) > 0 {
			cnt++
			if stride <= 1 || len(s) <= 3 || cnt%stride == 0 {
				g.Emit(M{"op": "Parse", "z": "r2", "s": s, "base": 0, "big": true})
				if !strings.ContainsAny(s, "_xb") || cnt%5 == 0 {
					g.Emit(M{"op": "Parse", "z": "r3", "s": s, "base": bases[cnt%4], "big": true})
				}
				if g.Pending() >= 400 {
					out = append(out, g.Flush("parseall"))
				}
			}
		}
		if len(s) < maxLen {
			for _, c := range alpha {
				rec(s + c)
			}
		}
	}
	rec("")
	if g.Pending() > 0 {
		out = append(out, g.Flush("parseall"))
	}
	return out
}

// Parse generates the C12 programs.
func Parse(g *G, n int) []Program {
	var out []Program
	bases := []int{0, 0, 0, 10, 10, 2, 8, 16}
	for i := 0; i < n; i++ {
		base := bases[g.R.Intn(len(bases))]
		p, m := g.Pick(0, 0, g.Prec()), g.Mode()
		var s string
		big := true
		switch k := g.R.Intn(100); {
		case k < 30: // long decimal literals: radix point anywhere, leading/trailing zeros, delicate digits after the precision
			pp := p
			if pp == 0 {
				pp = 34
			}
			d := g.targetResult(pp)
			if g.R.Intn(4) == 0 {
				d = g.Digits(g.Len())
			}
			d = strings.Repeat("0", g.Pick(0, 0, 1, 5)) + d + strings.Repeat("0", g.Pick(0, 0, 1, 20))
			dot := g.R.Intn(len(d) + 1)
			s = d[:dot] + "." + d[dot:]
			if g.R.Intn(3) == 0 {
				s = d
			}
			if g.Bool() {
				s += g.PickS("e", "E") + g.PickS("", "+", "-") + strconv.Itoa(g.R.Intn(300))
			}
			if g.R.Intn(3) == 0 {
				s = g.PickS("+", "-") + s
			}
			if base != 0 {
				base = 10
			}
		case k < 38: // huge and out-of-range exponents
			s = g.Digits(1+g.R.Intn(5)) + g.PickS("e", "E") + g.PickS("2147483647", "2147483646", "-2147483648", "-2147483649", "2147483648", "99999999999", "-99999999999",
				"9223372036854775807", "9223372036854775808", "-9223372036854775808", "-9223372036854775809", "2147483640", "-2147483650")
			if g.Bool() {
				s = "0." + s
			}
			if base != 0 {
				base = 10
			}
			big = false
		case k < 44: // binary exponents, also unrepresentable ones
			s = g.PickS("1", "0x1", "0x.8", "3", "0b101", "0o17", "0x1.8", "7.5") + g.PickS("p", "P") + g.PickS("0", "1", "-1", "10", "-10", "64", "-64", "63", "65", "-63", "100", "-200", "1000", "-1074",
				"99999999999", "-99999999999", "2147483648", "20000", "-20000", "65536", "100000", "-250000", "299999", "-300000", "300001")
			base = 0
			big = !strings.Contains(s, "9999") && !strings.Contains(s, "21474")
		case k < 50:
			s = g.PickS("Inf", "inf", "+Inf", "-Inf", "+inf", "-inf", "INF", "Infinity", "inF", "+ Inf", "Inf ", "-inff", "nan", "NaN", "", "+", "-", ".", "_", "e5", "0x", "0b", "0o", "0x.", "._1", "1_", "_1", "1__2", "0_x1", "0x_1", "0_1", "1e", "1e+", "1e_5", "1e5_", "1e1_0", "1p", "0b2", "0o8", "0xg", "1.2.3", "1 ", " 1", "1e5x", "++1", "+-1", "1_.5", "1._5", "0b_1", "0B1_1", "0O7_7", "0X_f.f_fP-1_0")
		case k < 70:
			s = g.randLiteral(base)
		case k < 85: // mutated valid literals
			s = g.mutate(g.randLiteral(base))
			if g.Bool() {
				s = g.mutate(s)
			}
		default: // random strings over the grammar's alphabet
			nn := g.R.Intn(7)
			for j := 0; j < nn; j++ {
				s += litAlphabet[g.R.Intn(len(litAlphabet))]
			}
		}
		g.Receiver("r2", p, m)
		op := g.PickS("Parse", "Parse", "Parse", "SetString", "UnmarshalText", "UnmarshalJSON", "ParseDecimal", "Scan")
		if base != 0 && op != "ParseDecimal" {
			op = "Parse"
		}
		st := M{"op": op, "z": "r2", "s": s, "base": base}
		switch op {
		case "Parse":
			if big {
				st["big"] = true
			}
		case "ParseDecimal":
			st["p"], st["m"] = p, m
		case "UnmarshalJSON":
			if !isPlainASCII(s) {
				st["op"] = "UnmarshalText"
			}
		case "Scan":
			if !isPlainASCII(s) || strings.ContainsAny(s, " ") || s == "" {
				st["op"] = "SetString"
			} else if g.R.Intn(5) == 0 {
				// a rune that is not ASCII but whose low byte is a character of the grammar, inside or right after the literal
				r := g.PickS("\u0131", "\u0135", "\u015f", "\u012e", "\u012d", "\u0465", "\u0170", "\u0130", "\u00e9")
				i := g.R.Intn(len(s) + 1)
				if g.Bool() {
					i = len(s)
				}
				st["s"] = s[:i] + r + s[i:]
			}
		}
		g.Emit(st)
		// the receiver must stay usable whatever happened
		g.Emit(M{"op": "Add", "z": "r3", "x": "r2", "y": "r2"})
		if g.Pending() >= 150 {
			out = append(out, g.Flush("parse"))
		}
	}
	if g.Pending() > 0 {
		out = append(out, g.Flush("parse"))
	}
	return out
}

func isPlainASCII(s string) bool {
	for _, c := range s {
		if c < 0x20 || c > 0x7e || c == '"' || c == '\\' {
			return false
		}
	}
	return true
}

var _ = fmt.Sprint
