// Package gen produces programs (sequences of API calls over named registers) for the executor.
// All randomness comes from the seeded generator in G, so a run is reproducible from
// (VERIF_SEED, tier). Generators know nothing about expected results: those come from the TLA+
// specification during trace validation.
package gen

import (
	"fmt"
	"math/big"
	"math/rand"
	"strconv"
	"strings"
)

type M = map[string]any

// Program is the executor's input.
type Program struct {
	Thr   []int    `json:"thr,omitempty"` // tuning thresholds for this program (karatsuba, basicSqr, karatsubaSqr)
	ID    string   `json:"id"`
	Regs  []string `json:"regs"`
	Ctxs  []string `json:"ctxs,omitempty"`
	Steps []M      `json:"steps"`
	// Only64: the program needs more memory than a 32-bit process has; the GOARCH=386 executor does not run its batch
	Only64 bool `json:"only64,omitempty"`
}

// G is a seeded generator context.
type G struct {
	// SawExtreme: a literal with an exponent beyond +-10^6 was loaded (drivers reset it; they use it to keep operands at
	// the ends of the exponent range from being added to operands in the middle: a 2^31-digit alignment)
	SawExtreme bool
	R          *rand.Rand
	Thor       bool // thorough tier
	n          int
	Regs       []string
	steps      []M
}

func New(seed int64, thorough bool) *G {
	return &G{R: rand.New(rand.NewSource(seed)), Thor: thorough, Regs: []string{"r0", "r1", "r2", "r3"}}
}

func (g *G) Emit(s M) { g.steps = append(g.steps, s) }

// Flush returns the steps accumulated so far as one program.
func (g *G) Flush(prefix string) Program {
	g.n++
	p := Program{ID: fmt.Sprintf("%s-%d", prefix, g.n), Regs: g.Regs, Steps: g.steps}
	g.steps = nil
	return p
}

func (g *G) Pending() int { return len(g.steps) }

func (g *G) Pick(xs ...int) int { return xs[g.R.Intn(len(xs))] }

func (g *G) PickI64(xs ...int64) int64 { return xs[g.R.Intn(len(xs))] }

func (g *G) PickS(xs ...string) string { return xs[g.R.Intn(len(xs))] }

func (g *G) Mode() int { return g.R.Intn(6) }

func (g *G) Bool() bool { return g.R.Intn(2) == 0 }

// Len picks an operand length in digits: mostly short, sometimes a few words, rarely long.
func (g *G) Len() int {
	switch k := g.R.Intn(100); {
	case k < 35:
		return 1 + g.R.Intn(8)
	case k < 65:
		return 1 + g.R.Intn(40)
	case k < 85:
		return g.Pick(18, 19, 20, 37, 38, 39, 57, 58, 76) + g.R.Intn(2)
	case k < 96:
		return 40 + g.R.Intn(360)
	default:
		if g.Thor {
			return 400 + g.R.Intn(4000)
		}
		return 400 + g.R.Intn(800)
	}
}

// Prec picks a receiver precision >= 1.
func (g *G) Prec() int {
	switch k := g.R.Intn(100); {
	case k < 30:
		return 1 + g.R.Intn(6)
	case k < 55:
		return g.Pick(1, 2, 16, 17, 18, 19, 20, 34, 37, 38, 39, 57, 76)
	case k < 90:
		return 1 + g.R.Intn(60)
	default:
		if g.Thor {
			return 60 + g.R.Intn(3000)
		}
		return 60 + g.R.Intn(500)
	}
}

// Digits returns an n-digit string (first digit non-zero) drawn from adversarial patterns.
func (g *G) Digits(n int) string {
	b := make([]byte, n)
	switch g.R.Intn(10) {
	case 0: // all nines
		for i := range b {
			b[i] = '9'
		}
	case 1: // 1 0...0 1
		for i := range b {
			b[i] = '0'
		}
		b[0] = '1'
		b[n-1] = '1'
	case 2: // d 0...0
		for i := range b {
			b[i] = '0'
		}
		b[0] = byte('1' + g.R.Intn(9))
	case 3: // runs of 9 and 0 (lengths around the 19-digit word size)
		i := 0
		c := byte('9')
		for i < n {
			k := g.Pick(1, 2, 18, 19, 20, 37, 38) + g.R.Intn(3)
			for j := 0; j < k && i < n; j++ {
				b[i] = c
				i++
			}
			if c == '9' {
				c = '0'
			} else {
				c = '9'
			}
		}
	case 4: // 4 9...9 or 5 0...0 1
		if g.Bool() {
			for i := range b {
				b[i] = '9'
			}
			b[0] = '4'
		} else {
			for i := range b {
				b[i] = '0'
			}
			b[0] = '5'
			b[n-1] = '1'
		}
	default:
		for i := range b {
			b[i] = byte('0' + g.R.Intn(10))
		}
		// sprinkle runs
		if n > 6 && g.R.Intn(3) == 0 {
			s := g.R.Intn(n - 3)
			k := 1 + g.R.Intn(n-s-1)
			c := byte('0')
			if g.Bool() {
				c = '9'
			}
			for j := s; j < s+k; j++ {
				b[j] = c
			}
		}
	}
	if b[0] == '0' {
		b[0] = byte('1' + g.R.Intn(9))
	}
	return string(b)
}

// Exp picks a decimal exponent E (value = 0.digits * 10^E).
func (g *G) Exp() int64 {
	switch k := g.R.Intn(100); {
	case k < 70:
		return int64(g.R.Intn(61) - 30)
	case k < 90:
		return int64(g.R.Intn(801) - 400)
	default:
		return g.ExtremeExp()
	}
}

// ExtremeExp picks an exponent within 60 of an end of the int32 range (or around half of it, so
// that products and quotients straddle the limits).
func (g *G) ExtremeExp() int64 {
	d := int64(g.R.Intn(60))
	switch g.R.Intn(6) {
	case 0:
		return 2147483647 - d
	case 1:
		return -2147483648 + d
	case 2:
		return 1073741824 + d - 30
	case 3:
		return -1073741824 + d - 30
	case 4:
		return 2147483647 - d*7
	default:
		return -2147483648 + d*7
	}
}

// Lit renders (-1)^neg * 0.digits * 10^e as a decimal literal.
func Lit(neg bool, digits string, e int64) string {
	s := "0." + digits + "e" + strconv.FormatInt(e, 10)
	if neg {
		s = "-" + s
	}
	return s
}

// Load emits the set-up pseudo-operation: give register z precision p (>= the digit count so that
// nothing is rounded), mode m and the literal's value. The specification adopts its result.
func (g *G) Load(z string, neg bool, digits string, e int64, p int, m int) {
	if e > 1000000 || e < -1000000 {
		g.SawExtreme = true
	}
	if p < len(digits) {
		p = len(digits)
	}
	if e > 2147483647 {
		e = 2147483647
	}
	if e < -2147483648 {
		e = -2147483648
	}
	g.Emit(M{"op": "Load", "z": z, "s": Lit(neg, digits, e), "p": p, "m": m})
}

// LoadSpecial loads +-0 or +-Inf with attributes.
func (g *G) LoadSpecial(z string, form string, neg bool, p int, m int) {
	s := "0"
	if form == "inf" {
		s = "Inf"
	}
	if neg {
		s = "-" + s
	}
	g.Emit(M{"op": "Load", "z": z, "s": s, "p": p, "m": m})
}

// Receiver prepares register z as a receiver with precision p and mode m, with a randomly chosen
// history (long stale buffer, short value, special value), and returns z.
func (g *G) Receiver(z string, p, m int) string {
	switch g.R.Intn(4) {
	case 0:
		g.Load(z, g.Bool(), g.Digits(g.Len()), g.Exp(), 0, m)
	case 1:
		g.Load(z, g.Bool(), g.Digits(1+g.R.Intn(5)), g.Exp(), 0, m)
	case 2:
		g.LoadSpecial(z, g.PickS("zero", "inf"), g.Bool(), p, m)
	default:
		g.Emit(M{"op": "New", "z": z})
	}
	// mode first: SetMode resets the accuracy, SetPrec (when it rounds) leaves Below/Above behind, so
	// receivers also carry stale inexact accuracies into the operation under test
	g.Emit(M{"op": "SetMode", "z": z, "m": m})
	g.Emit(M{"op": "SetPrec", "z": z, "p": p})
	return z
}

func bigOf(s string) *big.Int {
	v, ok := new(big.Int).SetString(s, 10)
	if !ok {
		panic("gen: bad digits " + s)
	}
	return v
}

// trimZeros splits a decimal integer string into significant digits and the count of removed trailing zeros.
func trimZeros(s string) (string, int) {
	t := strings.TrimRight(s, "0")
	if t == "" {
		return "0", 0
	}
	return t, len(s) - len(t)
}

// LoadInt loads the integer v * 10^e10 (v > 0) into z.
func (g *G) LoadInt(z string, neg bool, v *big.Int, e10 int64, p, m int) {
	s := v.String()
	d, tz := trimZeros(s)
	g.Load(z, neg, d, int64(len(d)+tz)+e10, p, m)
}

func itoa(v int64) string { return strconv.FormatInt(v, 10) }
