package gen

// partitions of (z, x, y): which of x, y the receiver is, and whether x = y
var shapes3 = [][3]string{{"r2", "r0", "r1"}, {"r0", "r0", "r1"}, {"r1", "r0", "r1"}, {"r2", "r0", "r0"}, {"r0", "r0", "r0"}}

var shapes4 = [][4]string{{"r2", "r0", "r1", "r3"}, {"r0", "r0", "r1", "r3"}, {"r1", "r0", "r1", "r3"}, {"r3", "r0", "r1", "r3"},
	{"r2", "r0", "r0", "r3"}, {"r2", "r0", "r1", "r0"}, {"r2", "r0", "r1", "r1"}, {"r0", "r0", "r0", "r3"}, {"r0", "r0", "r1", "r0"},
	{"r3", "r0", "r0", "r3"}, {"r1", "r0", "r1", "r1"}, {"r2", "r0", "r0", "r0"}, {"r0", "r0", "r0", "r0"}}

// Alias generates the C10 programs: the same operation instance under every aliasing shape and
// three receiver histories (fresh / previously much longer / previously special). In "uniform"
// instances all operands and the receiver have the same precision, so every variant with the same
// operand tuple must give the same outcome; those are tagged with a common "inst" and compared
// with each other by the trace specification, besides being validated against it.
func Alias(g *G, n int) []Program {
	var out []Program
	for i := 0; i < n; i++ {
		inst := "i" + itoa(int64(i))
		op := g.PickS("Add", "Sub", "Mul", "Quo", "FMA", "Set", "Neg", "Abs", "Sqrt", "SetMantExp", "MantExp", "Copy")
		xd, yd, ud := g.Digits(g.Len()), g.Digits(g.Len()), g.Digits(g.Len())
		if i%40 == 7 {
			// long operands: recursive division / Karatsuba with a reused (dirty) receiver buffer - always present, not left to
			// the draw of the operation (a seeded change detected in one round went unnoticed in a later one for that reason)
			op = []string{"Quo", "Mul", "Quo"}[(i/40)%3]
			xd, yd = g.Digits(2600+g.R.Intn(600)), g.Digits(1950+g.R.Intn(300))
		}
		xe := g.Exp()
		if xe > 100000 || xe < -100000 {
			xe = int64(g.R.Intn(100))
		}
		ye := xe + int64(g.R.Intn(61)-30)
		ue := xe + ye + int64(g.R.Intn(21)-10)
		xn, yn, un := g.Bool(), g.Bool(), g.Bool()
		if op == "Sqrt" {
			xn = false
		}
		switch g.R.Intn(8) {
		case 0: // equal magnitudes: exact cancellation / doubling / quotient one
			yd, ye = xd, xe
		case 1: // u cancels the product of x and a one-digit y
			if op == "FMA" {
				yd, ye = "1", 1
				ud, ue, un = xd, xe, !xn
			}
		}
		xp, yp, up := g.Prec(), g.Prec(), g.Prec()
		xm, ym, um := g.Mode(), g.Mode(), g.Mode()
		zp, zm := g.Pick(0, g.Prec(), g.Prec()), g.Mode()
		if g.R.Intn(3) == 0 {
			zm = 4 // ToNegativeInf: the sign of exact zero results depends on it
		}
		uniform := g.Bool()
		if i%8 == 3 && (op == "Quo" || op == "Mul" || op == "Add" || op == "Sub") {
			// a long first operand, a short second one and a receiver precision far below the operand's length:
			// the operation needs no copy of x and may be tempted to work in x's storage
			xd, yd = g.Digits(58+g.R.Intn(140)), g.Digits(1+g.R.Intn(22))
			ye = xe - int64(len(xd)) + int64(g.R.Intn(40))
			xp, yp = len(xd), len(yd)
			zp = g.Pick(1, 3, 10, 19, 20)
			uniform = false
		}
		if uniform {
			// one precision for everybody (Load raises it to the digit count, so take the maximum)
			P := len(xd)
			if len(yd) > P {
				P = len(yd)
			}
			if len(ud) > P {
				P = len(ud)
			}
			if g.Bool() {
				P += g.R.Intn(20)
			}
			xp, yp, up = P, P, P
			zp = g.Pick(0, P)
		}
		load := func() {
			g.Load("r0", xn, xd, xe, xp, xm)
			g.Load("r1", yn, yd, ye, yp, ym)
			g.Load("r3", un, ud, ue, up, um)
		}
		hist := func(z string, h int) {
			switch h {
			case 0:
				g.Emit(M{"op": "New", "z": z})
			case 1: // previously a much longer value: capacity and stale words exist; SetPrec below leaves a stale accuracy
				g.Load(z, g.Bool(), g.Digits(400+g.R.Intn(400)+len(xd)), g.Exp(), 0, g.Mode())
			default: // previously special: no buffer, stale sign
				g.Emit(M{"op": "New", "z": z})
				g.Emit(M{"op": "SetInf", "z": z, "neg": true})
			}
			g.Emit(M{"op": "SetMode", "z": z, "m": zm})
			g.Emit(M{"op": "SetPrec", "z": z, "p": zp})
		}
		receiver := func(z string, h int) {
			if z == "r2" {
				hist("r2", h)
			} else {
				// the receiver is an operand: give it the receiver's mode without changing its value
				g.Emit(M{"op": "SetMode", "z": z, "m": zm})
			}
		}
		tag := func(v M, key string) M {
			if uniform {
				v["inst"] = inst + key
			}
			return v
		}
		switch op {
		case "Add", "Sub", "Mul", "Quo":
			for _, sh := range shapes3 {
				hs := []int{g.R.Intn(3)}
				if sh[0] == "r2" {
					hs = []int{0, 1, 2}
				}
				for _, h := range hs {
					load()
					receiver(sh[0], h)
					g.Emit(tag(M{"op": op, "z": sh[0], "x": sh[1], "y": sh[2]}, sh[1]+sh[2]))
				}
			}
		case "FMA":
			for _, sh := range shapes4 {
				hs := []int{g.R.Intn(3)}
				if sh[0] == "r2" && sh[1] != sh[2] && sh[3] == "r3" {
					hs = []int{0, 1, 2}
				}
				for _, h := range hs {
					load()
					receiver(sh[0], h)
					g.Emit(tag(M{"op": "FMA", "z": sh[0], "x": sh[1], "y": sh[2], "u": sh[3]}, sh[1]+sh[2]+sh[3]))
				}
			}
		default:
			for _, z := range []string{"r2", "r2", "r2", "r0"} {
				load()
				receiver(z, g.R.Intn(3))
				s := M{"op": op, "z": z, "x": "r0"}
				if op == "SetMantExp" {
					s["e"] = "7"
				}
				if op != "Copy" && op != "SetMantExp" && op != "MantExp" { // those take their attributes from x, not from z
					s = tag(s, "r0")
				}
				g.Emit(s)
			}
		}
		// setters (arguments that are not Decimals) into the three receiver histories: the result may not depend on what
		// the receiver held before. Integers at the places where the digit-count estimate of the conversion is one word
		// too long (19 digits and >= 2^63, 38 and >= 2^126, 57 and >= 2^189), around the word base, powers of ten.
		if i%3 == 0 {
			sinst := "s" + itoa(int64(i))
			v := g.PickS("9223372036854775808", "9999999999999999999", "10000000000000000000", "9223372036854775807", "18446744073709551616",
				"85070591730234615865843651857942052864", "99999999999999999999999999999999999999", "100000000000000000000000000000000000000",
				"784637716923335095479473677900958302012794430558004314112", "999999999999999999999999999999999999999999999999999999999",
				g.Digits(19), g.Digits(38), g.Digits(1+g.R.Intn(60)), "1"+zeros(g.Pick(18, 19, 37, 38, 57)))
			den := g.PickS("1", "1", "3", "7", "1024", "9223372036854775808", g.Digits(20))
			kind := g.R.Intn(4)
			sp, sm := g.Pick(0, 5, 19, 20, 38, 40, 100), g.Mode()
			for h := 0; h < 3; h++ {
				switch h {
				case 0:
					g.Emit(M{"op": "New", "z": "r2"})
				case 1:
					g.Load("r2", g.Bool(), g.Digits(300+g.R.Intn(300)), g.Exp(), 0, g.Mode())
				default:
					g.Load("r2", g.Bool(), g.Digits(40+g.R.Intn(40)), g.Exp(), 0, g.Mode())
					g.Emit(M{"op": "SetInf", "z": "r2", "neg": true})
				}
				g.Emit(M{"op": "SetMode", "z": "r2", "m": sm})
				g.Emit(M{"op": "SetPrec", "z": "r2", "p": sp})
				var st M
				switch kind {
				case 0, 1:
					st = M{"op": "SetInt", "z": "r2", "i": g.signed(v, i)}
				case 2:
					st = M{"op": "SetRat", "z": "r2", "num": g.signed(v, i), "den": den}
				default:
					st = M{"op": "SetString", "z": "r2", "s": v + "e-7", "base": 0}
				}
				st["inst"] = sinst
				g.Emit(st)
			}
		}
		if g.Pending() >= 150 {
			out = append(out, g.Flush("alias"))
		}
	}
	if g.Pending() > 0 {
		out = append(out, g.Flush("alias"))
	}
	return out
}

func zeros(n int) string {
	b := make([]byte, n)
	for i := range b {
		b[i] = '0'
	}
	return string(b)
}

// signed prefixes v with "-" for odd i.
func (g *G) signed(v string, i int) string {
	if i%2 == 1 {
		return "-" + v
	}
	return v
}
