package gen

// partitions of (z, x, y): which of x, y the receiver is, and whether x = y
var shapes3 = [][3]string{{"r2", "r0", "r1"}, {"r0", "r0", "r1"}, {"r1", "r0", "r1"}, {"r2", "r0", "r0"}, {"r0", "r0", "r0"}}

// Alias generates the C10 programs: the same operation instance under every aliasing shape and
// three receiver histories (fresh / previously much longer / previously special).
func Alias(g *G, n int) []Program {
	var out []Program
	for i := 0; i < n; i++ {
		op := g.PickS("Add", "Sub", "Mul", "Quo", "FMA", "Set", "Neg", "Abs", "Sqrt", "SetMantExp", "MantExp", "Copy")
		xd, yd, ud := g.Digits(g.Len()), g.Digits(g.Len()), g.Digits(g.Len())
		xe := g.Exp()
		if xe > 100000 || xe < -100000 {
			xe = int64(g.R.Intn(100))
		}
		ye := xe + int64(g.R.Intn(61)-30)
		ue := xe + ye + int64(g.R.Intn(21)-10)
		xn, yn, un := g.Bool(), g.Bool(), g.Bool()
		if op == "Sqrt" {
			xn = false
		}
		xp, yp, up := g.Prec(), g.Prec(), g.Prec()
		xm, ym, um := g.Mode(), g.Mode(), g.Mode()
		zp, zm := g.Pick(0, g.Prec(), g.Prec()), g.Mode()
		load := func() {
			g.Load("r0", xn, xd, xe, xp, xm)
			g.Load("r1", yn, yd, ye, yp, ym)
			g.Load("r3", un, ud, ue, up, um)
		}
		hist := func(z string) {
			switch g.R.Intn(3) {
			case 0:
				g.Emit(M{"op": "New", "z": z})
			case 1: // previously a much longer value: capacity and stale words exist
				g.Load(z, g.Bool(), g.Digits(400+g.R.Intn(400)), g.Exp(), 0, g.Mode())
			default: // previously special: no buffer
				g.Emit(M{"op": "New", "z": z})
				g.Emit(M{"op": "SetInf", "z": z, "neg": g.Bool()})
			}
			g.Emit(M{"op": "SetMode", "z": z, "m": zm})
			g.Emit(M{"op": "SetPrec", "z": z, "p": zp})
		}
		switch op {
		case "Add", "Sub", "Mul", "Quo":
			for _, sh := range shapes3 {
				load()
				if sh[0] == "r2" {
					hist("r2")
				} else {
					// the receiver is an operand: give it the receiver attributes without changing its value
					g.Emit(M{"op": "SetMode", "z": sh[0], "m": zm})
				}
				g.Emit(M{"op": op, "z": sh[0], "x": sh[1], "y": sh[2]})
			}
		case "FMA":
			for _, sh := range [][4]string{{"r2", "r0", "r1", "r3"}, {"r0", "r0", "r1", "r3"}, {"r1", "r0", "r1", "r3"}, {"r3", "r0", "r1", "r3"},
				{"r2", "r0", "r0", "r3"}, {"r2", "r0", "r1", "r0"}, {"r2", "r0", "r1", "r1"}, {"r0", "r0", "r0", "r3"}, {"r0", "r0", "r1", "r0"},
				{"r3", "r0", "r0", "r3"}, {"r1", "r0", "r1", "r1"}, {"r2", "r0", "r0", "r0"}, {"r0", "r0", "r0", "r0"}} {
				load()
				if sh[0] == "r2" {
					hist("r2")
				} else {
					g.Emit(M{"op": "SetMode", "z": sh[0], "m": zm})
				}
				g.Emit(M{"op": "FMA", "z": sh[0], "x": sh[1], "y": sh[2], "u": sh[3]})
			}
		default:
			for _, z := range []string{"r2", "r0"} {
				load()
				if z == "r2" {
					hist("r2")
				} else {
					g.Emit(M{"op": "SetMode", "z": z, "m": zm})
				}
				s := M{"op": op, "z": z, "x": "r0"}
				if op == "SetMantExp" {
					s["e"] = itoa(int64(g.R.Intn(41) - 20))
				}
				g.Emit(s)
			}
		}
		if g.Pending() >= 150 {
			out = append(out, g.Flush("alias"))
		}
	}
	if g.Pending() > 0 {
		out = append(out, g.Flush("alias"))
	}
	return out
}
