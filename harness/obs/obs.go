// Package obs is the trusted observation function of the harness: it projects a *decimal.Decimal
// onto JSON through the public API only, with no interpretation (turning words into digits,
// stripping zeros, range checks are all done by the TLA+ specification).
package obs

import (
	"encoding/json"
	"fmt"
	"hash/fnv"
	"strconv"

	"github.com/db47h/decimal"
)

// Obs is the projected state of one Decimal.
type Obs struct {
	Form    string   `json:"form"`
	Neg     bool     `json:"neg"`
	Words   []string `json:"words"` // BitsExp words, little-endian, as decimal strings
	Exp     int32    `json:"exp"`   // BitsExp exponent (raw; meaningful for finite values only)
	Prec    int64    `json:"prec"`  // values >= 2^30 are reported as 2^30 (TLC integers)
	Mode    int      `json:"mode"`
	Acc     int      `json:"acc"`
	MinPrec int64    `json:"minprec"`
	MantExp int64    `json:"mantexp"`
	Bad     string   `json:"bad"` // set when an accessor itself panicked
}

// maxWords: mantissas longer than this (5.7 million digits; the drivers' longest operands have 20 000) get special
// treatment in Of. digitsPerWord is a lower bound on the digits of a full word (9 on 32-bit builds).
const (
	maxWords      = 300000
	digitsPerWord = 9
)

// clamp31 maps values at or above 2^30 to the sentinel 2^30 (TLC integers are 32-bit; the model's MaxPrec).
func clamp31(v uint64) int64 {
	if v >= 1<<30 {
		return 1 << 30
	}
	return int64(v)
}

// Of observes x. Accessor panics are caught and reported in Bad.
func Of(x *decimal.Decimal) (o Obs) {
	o.Words = []string{}
	defer func() {
		if r := recover(); r != nil {
			o.Bad = fmt.Sprint(r)
		}
	}()
	switch {
	case x.IsInf():
		o.Form = "inf"
	case x.IsZero():
		o.Form = "zero"
	default:
		o.Form = "finite"
	}
	o.Neg = x.Signbit()
	o.Prec = clamp31(uint64(x.Prec()))
	o.Mode = int(x.Mode())
	o.Acc = int(x.Acc())
	w, e := x.BitsExp()
	o.Exp = e
	if len(w) > maxWords {
		// A mantissa this long cannot travel through the event log. Its low zero words carry no digit (the value is
		// 0.mantissa x 10^exp) and are dropped; if what remains certainly has more digits than the precision allows,
		// the value is malformed whatever its digits are (property C08) and is reported as such, with a few words.
		lo := 0
		for lo < len(w) && w[lo] == 0 {
			lo++
		}
		w = w[lo:]
		if len(w) > maxWords && uint64(len(w)-1)*digitsPerWord > uint64(x.Prec()) {
			o.Bad = fmt.Sprintf("mantissa of %d non-zero-terminated words exceeds the precision %d", len(w), x.Prec())
			w = append(append([]decimal.Word{}, w[:2]...), w[len(w)-2:]...)
		}
	}
	for _, v := range w {
		o.Words = append(o.Words, strconv.FormatUint(uint64(v), 10))
	}
	o.MinPrec = clamp31(uint64(x.MinPrec()))
	me := x.MantExp(nil)
	if me > 1<<31-1 || me < -(1<<31) {
		me = 1<<31 - 1
	}
	o.MantExp = int64(me)
	return o
}

// Digest is a 64-bit digest of an observation (used for registers an event does not name).
func Digest(o Obs) string {
	b, _ := json.Marshal(o)
	h := fnv.New64a()
	h.Write(b)
	return strconv.FormatUint(h.Sum64(), 16)
}
