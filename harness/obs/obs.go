// Package obs is the trusted observation function of the harness: it projects a *decimal.Decimal
// onto JSON through the public API only, with no interpretation (turning words into digits,
// stripping zeros, range checks are all done by the TLA+ specification).
package obs

import (
	"encoding/json"
	"fmt"
	"hash/fnv"
	"strconv"

	"github.com/db47h/decimal"
)

// Obs is the projected state of one Decimal.
type Obs struct {
	Form    string   `json:"form"`
	Neg     bool     `json:"neg"`
	Words   []string `json:"words"` // BitsExp words, little-endian, as decimal strings
	Exp     int32    `json:"exp"`   // BitsExp exponent (raw; meaningful for finite values only)
	Prec    int64    `json:"prec"`  // values >= 2^30 are reported as 2^30 (TLC integers)
	Mode    int      `json:"mode"`
	Acc     int      `json:"acc"`
	MinPrec int64    `json:"minprec"`
	MantExp int64    `json:"mantexp"`
	Bad     string   `json:"bad"` // set when an accessor itself panicked
}

// clamp31 maps values at or above 2^30 to the sentinel 2^30 (TLC integers are 32-bit; the model's MaxPrec).
func clamp31(v uint64) int64 {
	if v >= 1<<30 {
		return 1 << 30
	}
	return int64(v)
}

// Of observes x. Accessor panics are caught and reported in Bad.
func Of(x *decimal.Decimal) (o Obs) {
	o.Words = []string{}
	defer func() {
		if r := recover(); r != nil {
			o.Bad = fmt.Sprint(r)
		}
	}()
	switch {
	case x.IsInf():
		o.Form = "inf"
	case x.IsZero():
		o.Form = "zero"
	default:
		o.Form = "finite"
	}
	o.Neg = x.Signbit()
	o.Prec = clamp31(uint64(x.Prec()))
	o.Mode = int(x.Mode())
	o.Acc = int(x.Acc())
	w, e := x.BitsExp()
	o.Exp = e
	for _, v := range w {
		o.Words = append(o.Words, strconv.FormatUint(uint64(v), 10))
	}
	o.MinPrec = clamp31(uint64(x.MinPrec()))
	me := x.MantExp(nil)
	if me > 1<<31-1 || me < -(1<<31) {
		me = 1<<31 - 1
	}
	o.MantExp = int64(me)
	return o
}

// Digest is a 64-bit digest of an observation (used for registers an event does not name).
func Digest(o Obs) string {
	b, _ := json.Marshal(o)
	h := fnv.New64a()
	h.Write(b)
	return strconv.FormatUint(h.Sum64(), 16)
}
