module verif/harness

go 1.21

require github.com/db47h/decimal v0.0.0

replace github.com/db47h/decimal => /repo
