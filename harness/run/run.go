// Package run builds the executor from the tree under test and drives vexec and TLC.
package run

import (
	"bufio"
	"bytes"
	"encoding/json"
	"fmt"
	"io"
	"os"
	"os/exec"
	"path/filepath"
	"regexp"
	"strconv"
	"strings"
	"time"
)

// Env describes one check run.
type Env struct {
	Home    string // /verif
	Repo    string // tree under test (default /repo)
	Scratch string // per-run scratch directory (outside /repo, /verif and /tmp)
	Seed    int64
	Tier    string
	Log     io.Writer
}

func getenv(k, d string) string {
	if v := os.Getenv(k); v != "" {
		return v
	}
	return d
}

// NewEnv reads VERIF_* variables and creates the scratch directory.
func NewEnv(tier string) (*Env, error) {
	e := &Env{Home: getenv("VERIF_HOME", "/verif"), Repo: getenv("VERIF_REPO", "/repo"), Tier: tier, Log: os.Stderr}
	if t := os.Getenv("VERIF_TIER"); t != "" && tier == "" {
		e.Tier = t
	}
	if e.Tier == "" {
		e.Tier = "quick"
	}
	e.Seed = 1
	if s := os.Getenv("VERIF_SEED"); s != "" {
		if v, err := strconv.ParseInt(s, 10, 64); err == nil {
			e.Seed = v
		}
	}
	root := getenv("VERIF_SCRATCH", "/var/tmp")
	d, err := os.MkdirTemp(root, "vcheck.")
	if err != nil {
		return nil, err
	}
	e.Scratch = d
	return e, nil
}

// Close removes the scratch directory.
func (e *Env) Close() {
	if os.Getenv("VERIF_KEEP") != "" {
		fmt.Fprintln(os.Stderr, "keeping scratch", e.Scratch)
		return
	}
	os.RemoveAll(e.Scratch)
}

func goEnv() []string {
	env := os.Environ()
	env = append(env, "GOFLAGS=-mod=mod", "GOPROXY=off", "GOSUMDB=off", "GOTOOLCHAIN=local", "CGO_ENABLED=1")
	return env
}

// BuildExec builds cmd/vexec against e.Repo with the given build tags (the hook guard `verif`
// is always on). Returns the binary path. A compile failure is an error (exit 2), not a verdict.
func (e *Env) BuildExec(name string, tags string, race bool) (string, error) {
	mod := filepath.Join(e.Scratch, name+".go.mod")
	content := fmt.Sprintf("module verif/harness\n\ngo 1.21\n\nrequire github.com/db47h/decimal v0.0.0\n\nreplace github.com/db47h/decimal => %s\n", e.Repo)
	if err := os.WriteFile(mod, []byte(content), 0o644); err != nil {
		return "", err
	}
	os.WriteFile(filepath.Join(e.Scratch, name+".go.sum"), nil, 0o644)
	bin := filepath.Join(e.Scratch, name)
	t := "verif"
	goarch := ""
	for _, tg := range strings.Split(tags, ",") {
		if strings.HasPrefix(tg, "arch=") { // pseudo-tag: another word size (arch=386: 32-bit words, base 10^9)
			goarch = tg[5:]
		} else if tg != "" {
			t += "," + tg
		}
	}
	args := []string{"build", "-modfile=" + mod, "-tags", t, "-o", bin}
	if race {
		args = append(args, "-race")
	}
	args = append(args, "./cmd/vexec")
	cmd := exec.Command("go", args...)
	cmd.Dir = filepath.Join(e.Home, "harness")
	cmd.Env = goEnv()
	if goarch != "" {
		cmd.Env = append(cmd.Env, "GOARCH="+goarch, "CGO_ENABLED=0")
	}
	out, err := cmd.CombinedOutput()
	if err != nil {
		return "", fmt.Errorf("go build failed: %v\n%s", err, out)
	}
	return bin, nil
}

// ErrHang is returned by Exec when a library call did not return within the executor's step timeout; the
// events recorded before it are on disk.
var ErrHang = fmt.Errorf("vexec: a library call did not return (step timeout)")

// Exec runs vexec on a program file.
func (e *Env) Exec(bin, progs, events string, timeout time.Duration) error {
	st := "45s"
	if e.Tier == "thorough" {
		st = "300s"
	}
	cmd := exec.Command(bin, "-in", progs, "-out", events, "-steptimeout", st)
	var errb bytes.Buffer
	cmd.Stderr = &errb
	cmd.Stdout = &errb
	if err := cmd.Start(); err != nil {
		return err
	}
	done := make(chan error, 1)
	go func() { done <- cmd.Wait() }()
	select {
	case err := <-done:
		if ee, ok := err.(*exec.ExitError); ok && ee.ExitCode() == 3 {
			return ErrHang
		}
		if err != nil {
			msg := errb.String()
			if len(msg) > 2600 {
				msg = msg[:600] + "\n...\n" + tail(msg, 2000)
			}
			return fmt.Errorf("vexec %s: %v: %s", filepath.Base(progs), err, msg)
		}
		return nil
	case <-time.After(timeout):
		cmd.Process.Kill()
		return fmt.Errorf("vexec: timeout after %v", timeout)
	}
}

// ExecRace runs a -race build of vexec; returns its combined output and exit code (66 = race reported).
func (e *Env) ExecRace(bin, progs, events string, timeout time.Duration) (string, int) {
	cmd := exec.Command(bin, "-in", progs, "-out", events)
	cmd.Env = append(os.Environ(), "GORACE=halt_on_error=1 exitcode=66", "VERIF_NOPOOLLOG=1")
	var out bytes.Buffer
	cmd.Stderr = &out
	cmd.Stdout = &out
	if err := cmd.Start(); err != nil {
		return err.Error(), 2
	}
	done := make(chan error, 1)
	go func() { done <- cmd.Wait() }()
	select {
	case err := <-done:
		if err == nil {
			return out.String(), 0
		}
		if ee, ok := err.(*exec.ExitError); ok {
			return out.String(), ee.ExitCode()
		}
		return err.Error(), 2
	case <-time.After(timeout):
		cmd.Process.Kill()
		return "timeout", 2
	}
}

func tail(s string, n int) string {
	if len(s) > n {
		return s[len(s)-n:]
	}
	return s
}

// TLCResult is what one TLC run produced.
type TLCResult struct {
	OK        bool // TLC finished without reporting an error
	Generated int64
	Distinct  int64
	Depth     int64
	Verdicts  []string // JSON payloads of VERDICT lines
	Prints    []string // JSON payloads of SIM lines (simulation mode)
	Output    string
	Violated  string // name of a violated invariant/property, if any
	WallS     float64
}

var (
	reStates = regexp.MustCompile(`(\d[\d,]*) states generated, (\d[\d,]*) distinct states found`)
	reDepth  = regexp.MustCompile(`depth of the complete state graph search is (\d+)`)
	reViol   = regexp.MustCompile(`(?:Invariant|Temporal property|Action property) (\S+) (?:is|was) violated`)
)

func atoi(s string) int64 {
	v, _ := strconv.ParseInt(strings.ReplaceAll(s, ",", ""), 10, 64)
	return v
}

// TLAPM checks the proofs of module mod (spec/proofs/<mod>.tla, which may extend modules of spec/) with the
// TLA+ proof system in a private scratch copy. Returns the number of obligations proved; anything but
// "All N obligations proved" is an error.
func (e *Env) TLAPM(mod string, timeout time.Duration) (int, error) {
	dir, err := os.MkdirTemp(e.Scratch, "tlapm.")
	if err != nil {
		return 0, err
	}
	defer os.RemoveAll(dir)
	for _, sub := range []string{"spec", "spec/proofs"} {
		ents, _ := os.ReadDir(filepath.Join(e.Home, sub))
		for _, en := range ents {
			if en.IsDir() || !strings.HasSuffix(en.Name(), ".tla") {
				continue
			}
			b, err := os.ReadFile(filepath.Join(e.Home, sub, en.Name()))
			if err != nil {
				return 0, err
			}
			os.WriteFile(filepath.Join(dir, en.Name()), b, 0o644)
		}
	}
	cmd := exec.Command("tlapm", "--threads", "16", "--cleanfp", mod+".tla")
	cmd.Dir = dir
	var out bytes.Buffer
	cmd.Stdout = &out
	cmd.Stderr = &out
	if err := cmd.Start(); err != nil {
		return 0, err
	}
	done := make(chan error, 1)
	go func() { done <- cmd.Wait() }()
	select {
	case <-done:
	case <-time.After(timeout):
		cmd.Process.Kill()
		<-done
		return 0, fmt.Errorf("tlapm %s: timeout after %v", mod, timeout)
	}
	m := regexp.MustCompile(`All (\d+) obligations? proved`).FindStringSubmatch(out.String())
	if m == nil {
		return 0, fmt.Errorf("tlapm %s: proof not checked\n%s", mod, tail(out.String(), 3000))
	}
	n, _ := strconv.Atoi(m[1])
	return n, nil
}

// TLC runs module mod (.tla and .cfg from spec/, spec/mc, spec/trace) in a private scratch copy.
// overrides maps CONSTANT names to replacement right-hand sides in the cfg (e.g. "NMax" -> "60").
func (e *Env) TLC(mod string, consts map[string]string, workers int, heapMB int, extraEnv []string, timeout time.Duration, extraArgs ...string) (*TLCResult, error) {
	dir, err := os.MkdirTemp(e.Scratch, "tlc.")
	if err != nil {
		return nil, err
	}
	defer os.RemoveAll(dir)
	for _, sub := range []string{"spec", "spec/mc", "spec/trace"} {
		ents, _ := os.ReadDir(filepath.Join(e.Home, sub))
		for _, en := range ents {
			if en.IsDir() {
				continue
			}
			b, err := os.ReadFile(filepath.Join(e.Home, sub, en.Name()))
			if err != nil {
				return nil, err
			}
			if en.Name() == mod+".cfg" && len(consts) > 0 {
				b = patchCfg(b, consts)
			}
			os.WriteFile(filepath.Join(dir, en.Name()), b, 0o644)
		}
	}
	jars := "/opt/veriftools/tla"
	args := []string{"-Xss512m", "-XX:+UseParallelGC", fmt.Sprintf("-Xmx%dm", heapMB),
		"-Dtlc2.overrides.TLCOverrides=tlc2.overrides.TLCOverrides:VerifOverrides",
		"-cp", filepath.Join(e.Home, "build/classes") + ":" + jars + "/tla2tools.jar:" + jars + "/CommunityModules-deps.jar",
		"tlc2.TLC", "-metadir", filepath.Join(dir, "meta"), "-config", mod + ".cfg", "-workers", strconv.Itoa(workers)}
	args = append(args, extraArgs...)
	args = append(args, mod+".tla")
	cmd := exec.Command("java", args...)
	cmd.Dir = dir
	cmd.Env = append(os.Environ(), extraEnv...)
	var out bytes.Buffer
	cmd.Stdout = &out
	cmd.Stderr = &out
	start := time.Now()
	if err := cmd.Start(); err != nil {
		return nil, err
	}
	done := make(chan error, 1)
	go func() { done <- cmd.Wait() }()
	var werr error
	select {
	case werr = <-done:
	case <-time.After(timeout):
		cmd.Process.Kill()
		<-done
		return nil, fmt.Errorf("TLC %s: timeout after %v", mod, timeout)
	}
	res := &TLCResult{Output: out.String(), WallS: time.Since(start).Seconds()}
	sc := bufio.NewScanner(strings.NewReader(res.Output))
	sc.Buffer(make([]byte, 1<<20), 1<<30)
	for sc.Scan() {
		line := sc.Text()
		if strings.HasPrefix(line, "\"VERDICT ") {
			var s string
			if err := json.Unmarshal([]byte(line), &s); err == nil {
				res.Verdicts = append(res.Verdicts, strings.TrimPrefix(s, "VERDICT "))
			}
		}
		if strings.HasPrefix(line, "\"SIM ") {
			var s string
			if err := json.Unmarshal([]byte(line), &s); err == nil {
				res.Prints = append(res.Prints, strings.TrimPrefix(s, "SIM "))
			}
		}
		if m := reStates.FindStringSubmatch(line); m != nil {
			res.Generated, res.Distinct = atoi(m[1]), atoi(m[2])
		}
		if m := reDepth.FindStringSubmatch(line); m != nil {
			res.Depth = atoi(m[1])
		}
		if m := reViol.FindStringSubmatch(line); m != nil && res.Violated == "" {
			res.Violated = m[1]
		}
	}
	res.OK = werr == nil && (strings.Contains(res.Output, "Model checking completed. No error has been found.") || len(res.Prints) > 0 && res.Violated == "")
	if !res.OK && res.Violated == "" && werr != nil && !strings.Contains(res.Output, "Error:") {
		return res, fmt.Errorf("TLC %s failed: %v\n%s", mod, werr, tail(res.Output, 3000))
	}
	return res, nil
}

var reConst = regexp.MustCompile(`^(\s*)(\w+)(\s*)=(.*)$`)

func patchCfg(b []byte, consts map[string]string) []byte {
	lines := strings.Split(string(b), "\n")
	for i, ln := range lines {
		if m := reConst.FindStringSubmatch(ln); m != nil {
			if v, ok := consts[m[2]]; ok {
				lines[i] = m[1] + m[2] + " = " + v
			}
		}
	}
	return []byte(strings.Join(lines, "\n"))
}
