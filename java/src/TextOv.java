import tlc2.overrides.TLAPlusOperator;
import tlc2.value.impl.IntValue;
import tlc2.value.impl.StringValue;
import tlc2.value.impl.TupleValue;
import tlc2.value.impl.Value;

/**
 * I/O helpers for spec/Chars.tla: TLC can build strings with \o and take Len, but cannot index them.
 * Chars("ab") = <<"a","b">> ; Unchars is the inverse.  No library semantics lives here.
 */
public final class TextOv {
	private TextOv() {}

	@TLAPlusOperator(identifier = "Chars", module = "Chars", warn = false)
	public static Value chars(final Value s) {
		final String str = ((StringValue) s).val.toString();
		final Value[] e = new Value[str.length()];
		for (int i = 0; i < str.length(); i++) {
			e[i] = new StringValue(String.valueOf(str.charAt(i)));
		}
		return new TupleValue(e);
	}

	@TLAPlusOperator(identifier = "Unchars", module = "Chars", warn = false)
	public static Value unchars(final Value cs) {
		final Value[] e = ((TupleValue) cs.toTuple()).elems;
		final StringBuilder sb = new StringBuilder();
		for (final Value v : e) {
			sb.append(((StringValue) v).val.toString());
		}
		return new StringValue(sb.toString());
	}

	@TLAPlusOperator(identifier = "CharCode", module = "Chars", warn = false)
	public static Value charCode(final Value c) {
		final String str = ((StringValue) c).val.toString();
		return IntValue.gen(str.isEmpty() ? -1 : str.charAt(0));
	}

	@TLAPlusOperator(identifier = "HexBytes", module = "Chars", warn = false)
	public static Value hexBytes(final Value s) {
		final String str = ((StringValue) s).val.toString();
		final Value[] e = new Value[str.length() / 2];
		for (int i = 0; i < e.length; i++) {
			e[i] = IntValue.gen(Integer.parseInt(str.substring(2 * i, 2 * i + 2), 16));
		}
		return new TupleValue(e);
	}

	@TLAPlusOperator(identifier = "Rep", module = "Chars", warn = false)
	public static Value rep(final Value s, final Value n) {
		final String str = ((StringValue) s).val.toString();
		final int k = ((IntValue) n).val;
		final StringBuilder sb = new StringBuilder();
		for (int i = 0; i < k; i++) {
			sb.append(str);
		}
		return new StringValue(sb.toString());
	}

	@TLAPlusOperator(identifier = "MsdStr", module = "Chars", warn = false)
	public static Value msdStr(final Value a, final Value i, final Value j) {
		final Value[] e = ((TupleValue) a.toTuple()).elems;
		final int lo = ((IntValue) i).val, hi = ((IntValue) j).val;
		final StringBuilder sb = new StringBuilder();
		for (int k = lo; k <= hi; k++) {
			sb.append((char) ('0' + ((IntValue) e[e.length - k]).val));
		}
		return new StringValue(sb.toString());
	}
}
