import java.math.BigInteger;

import tlc2.overrides.TLAPlusOperator;
import tlc2.value.impl.BoolValue;
import tlc2.value.impl.IntValue;
import tlc2.value.impl.StringValue;
import tlc2.value.impl.TupleValue;
import tlc2.value.impl.Value;

/**
 * java.math.BigInteger accelerators for the operators of spec/BigNat.tla.
 * Every method here has a pure TLA+ definition (XDef) in the module; mc/MC_BigNat checks
 * that both agree.  A BigNat is a little-endian tuple of decimal digits without leading zeros.
 */
public final class BigNatOv {
	private BigNatOv() {}

	static BigInteger toBig(final Value v) {
		final TupleValue t = (TupleValue) v.toTuple();
		if (t == null) {
			throw new IllegalArgumentException("BigNat: not a sequence: " + v);
		}
		final Value[] e = t.elems;
		final int n = e.length;
		if (n == 0) {
			return BigInteger.ZERO;
		}
		final char[] cs = new char[n];
		for (int i = 0; i < n; i++) {
			final int d = ((IntValue) e[i]).val;
			if (d < 0 || d > 9) {
				throw new IllegalArgumentException("BigNat: digit out of range: " + d);
			}
			cs[n - 1 - i] = (char) ('0' + d);
		}
		return new BigInteger(new String(cs));
	}

	static Value fromBig(final BigInteger b) {
		if (b.signum() < 0) {
			throw new IllegalArgumentException("BigNat: negative result");
		}
		if (b.signum() == 0) {
			return new TupleValue(new Value[0]);
		}
		final String s = b.toString();
		final int n = s.length();
		final Value[] e = new Value[n];
		for (int i = 0; i < n; i++) {
			e[i] = IntValue.gen(s.charAt(n - 1 - i) - '0');
		}
		return new TupleValue(e);
	}

	@TLAPlusOperator(identifier = "Norm", module = "BigNat", warn = false)
	public static Value norm(final Value a) {
		final TupleValue t = (TupleValue) a.toTuple();
		int n = t.elems.length;
		while (n > 0 && ((IntValue) t.elems[n - 1]).val == 0) {
			n--;
		}
		if (n == t.elems.length) {
			return t;
		}
		final Value[] e = new Value[n];
		System.arraycopy(t.elems, 0, e, 0, n);
		return new TupleValue(e);
	}

	@TLAPlusOperator(identifier = "FromInt", module = "BigNat", warn = false)
	public static Value fromInt(final Value n) {
		return fromBig(BigInteger.valueOf(((IntValue) n).val));
	}

	@TLAPlusOperator(identifier = "TrailingZeros", module = "BigNat", warn = false)
	public static Value trailingZeros(final Value a) {
		final TupleValue t = (TupleValue) a.toTuple();
		int i = 0;
		while (i < t.elems.length && ((IntValue) t.elems[i]).val == 0) {
			i++;
		}
		return IntValue.gen(i == t.elems.length ? (t.elems.length == 0 ? 0 : i) : i);
	}

	@TLAPlusOperator(identifier = "Cmp", module = "BigNat", warn = false)
	public static Value cmp(final Value a, final Value b) {
		final Value[] x = ((TupleValue) a.toTuple()).elems;
		final Value[] y = ((TupleValue) b.toTuple()).elems;
		if (x.length != y.length) {
			return IntValue.gen(x.length < y.length ? -1 : 1);
		}
		for (int i = x.length - 1; i >= 0; i--) {
			final int dx = ((IntValue) x[i]).val, dy = ((IntValue) y[i]).val;
			if (dx != dy) {
				return IntValue.gen(dx < dy ? -1 : 1);
			}
		}
		return IntValue.gen(0);
	}

	@TLAPlusOperator(identifier = "Add", module = "BigNat", warn = false)
	public static Value add(final Value a, final Value b) {
		return fromBig(toBig(a).add(toBig(b)));
	}

	@TLAPlusOperator(identifier = "Sub", module = "BigNat", warn = false)
	public static Value sub(final Value a, final Value b) {
		return fromBig(toBig(a).subtract(toBig(b)));
	}

	@TLAPlusOperator(identifier = "Mul", module = "BigNat", warn = false)
	public static Value mul(final Value a, final Value b) {
		return fromBig(toBig(a).multiply(toBig(b)));
	}

	@TLAPlusOperator(identifier = "DivMod", module = "BigNat", warn = false)
	public static Value divMod(final Value a, final Value b) {
		final BigInteger[] qr = toBig(a).divideAndRemainder(toBig(b));
		return new TupleValue(new Value[] { fromBig(qr[0]), fromBig(qr[1]) });
	}

	@TLAPlusOperator(identifier = "ISqrt", module = "BigNat", warn = false)
	public static Value isqrt(final Value a) {
		return fromBig(toBig(a).sqrt());
	}

	@TLAPlusOperator(identifier = "Pow", module = "BigNat", warn = false)
	public static Value pow(final Value a, final Value n) {
		return fromBig(toBig(a).pow(((IntValue) n).val));
	}

	@TLAPlusOperator(identifier = "ConcatWords", module = "BigNat", warn = false)
	public static Value concatWords(final Value ws, final Value dw) {
		final Value[] w = ((TupleValue) ws.toTuple()).elems;
		final int d = ((IntValue) dw).val;
		BigInteger acc = BigInteger.ZERO;
		final BigInteger base = BigInteger.TEN.pow(d);
		boolean small = true;
		for (int i = 0; i < w.length; i++) {
			if (((TupleValue) w[i].toTuple()).elems.length > d) {
				small = false;
			}
		}
		if (small) {
			// fast path: plain digit concatenation
			final int n = w.length * d;
			final Value[] e = new Value[n];
			final Value zero = IntValue.gen(0);
			for (int i = 0; i < w.length; i++) {
				final Value[] x = ((TupleValue) w[i].toTuple()).elems;
				System.arraycopy(x, 0, e, i * d, x.length);
				for (int j = x.length; j < d; j++) {
					e[i * d + j] = zero;
				}
			}
			return norm(new TupleValue(e));
		}
		for (int i = w.length - 1; i >= 0; i--) {
			acc = acc.multiply(base).add(toBig(w[i]));
		}
		return fromBig(acc);
	}

	@TLAPlusOperator(identifier = "SplitWords", module = "BigNat", warn = false)
	public static Value splitWords(final Value a, final Value dw, final Value n) {
		final Value[] x = ((TupleValue) a.toTuple()).elems;
		final int d = ((IntValue) dw).val;
		final int k = ((IntValue) n).val;
		final Value[] out = new Value[k];
		for (int i = 0; i < k; i++) {
			final int lo = Math.min(i * d, x.length), hi = Math.min((i + 1) * d, x.length);
			final Value[] e = new Value[hi - lo];
			System.arraycopy(x, lo, e, 0, hi - lo);
			out[i] = norm(new TupleValue(e));
		}
		return new TupleValue(out);
	}

	@TLAPlusOperator(identifier = "FromStr", module = "BigNat", warn = false)
	public static Value fromStr(final Value s) {
		final String str = ((StringValue) s).val.toString();
		if (str.isEmpty()) {
			return new TupleValue(new Value[0]);
		}
		for (int i = 0; i < str.length(); i++) {
			final char c = str.charAt(i);
			if (c < '0' || c > '9') {
				throw new IllegalArgumentException("BigNat!FromStr: not a decimal string: " + str);
			}
		}
		final int n = str.length();
		final Value[] e = new Value[n];
		for (int i = 0; i < n; i++) {
			e[i] = IntValue.gen(str.charAt(n - 1 - i) - '0');
		}
		return norm(new TupleValue(e));
	}

	@TLAPlusOperator(identifier = "ToStr", module = "BigNat", warn = false)
	public static Value toStr(final Value a) {
		final Value[] x = ((TupleValue) a.toTuple()).elems;
		if (x.length == 0) {
			return new StringValue("0");
		}
		final char[] cs = new char[x.length];
		for (int i = 0; i < x.length; i++) {
			cs[x.length - 1 - i] = (char) ('0' + ((IntValue) x[i]).val);
		}
		return new StringValue(new String(cs));
	}

	@TLAPlusOperator(identifier = "IFromStr", module = "BigInt", warn = false)
	public static Value iFromStr(final Value s) {
		String str = ((StringValue) s).val.toString();
		boolean neg = false;
		if (str.startsWith("-")) {
			neg = true;
			str = str.substring(1);
		} else if (str.startsWith("+")) {
			str = str.substring(1);
		}
		final Value mag = fromStr(new StringValue(str));
		final boolean isZero = ((TupleValue) mag).elems.length == 0;
		return new tlc2.value.impl.RecordValue(
				new util.UniqueString[] { util.UniqueString.uniqueStringOf("neg"), util.UniqueString.uniqueStringOf("mag") },
				new Value[] { (neg && !isZero) ? BoolValue.ValTrue : BoolValue.ValFalse, mag }, false);
	}
}
