import tlc2.overrides.ITLCOverrides;

/** Loaded with -Dtlc2.overrides.TLCOverrides=tlc2.overrides.TLCOverrides:VerifOverrides */
public class VerifOverrides implements ITLCOverrides {
	@SuppressWarnings("rawtypes")
	@Override
	public Class[] get() {
		return new Class[] { BigNatOv.class, TextOv.class };
	}
}
