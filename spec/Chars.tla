-------------------------------- MODULE Chars --------------------------------
(***************************************************************************)
(* I/O helpers for text and bytes (no library semantics).  TLC can build   *)
(* strings with \o and take Len, but cannot index them:                    *)
(*   Chars("ab")    = <<"a", "b">>        Unchars(<<"a","b">>) = "ab"      *)
(*   CharCode("a")  = 97                                                   *)
(*   HexBytes("0aff") = <<10, 255>>                                        *)
(* All four are overridden by java/src/TextOv.java.                        *)
(***************************************************************************)
EXTENDS Integers, Sequences

Chars(s)    == CHOOSE cs \in Seq(STRING) : TRUE
Unchars(cs) == CHOOSE s \in STRING : TRUE
CharCode(c) == CHOOSE n \in Int : TRUE
HexBytes(s) == CHOOSE bs \in Seq(0..255) : TRUE

(* s repeated n times (pure definition; overridden for speed) *)
RECURSIVE RepDef(_, _)
RepDef(s, n) == IF n <= 0 THEN "" ELSE s \o RepDef(s, n - 1)
Rep(s, n) == RepDef(s, n)

DigitChar == <<"0", "1", "2", "3", "4", "5", "6", "7", "8", "9">>
(* the digits of the little-endian digit sequence a, from most significant position i to j (1-based), as a string *)
RECURSIVE MsdStrDef(_, _, _)
MsdStrDef(a, i, j) == IF i > j THEN "" ELSE DigitChar[a[Len(a) - i + 1] + 1] \o MsdStrDef(a, i + 1, j)
MsdStr(a, i, j) == MsdStrDef(a, i, j)
=============================================================================
