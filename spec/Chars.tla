-------------------------------- MODULE Chars --------------------------------
(***************************************************************************)
(* I/O helpers for text and bytes (no library semantics).  TLC can build   *)
(* strings with \o and take Len, but cannot index them:                    *)
(*   Chars("ab")    = <<"a", "b">>        Unchars(<<"a","b">>) = "ab"      *)
(*   CharCode("a")  = 97                                                   *)
(*   HexBytes("0aff") = <<10, 255>>                                        *)
(* All four are overridden by java/src/TextOv.java.                        *)
(***************************************************************************)
EXTENDS Integers, Sequences

Chars(s)    == CHOOSE cs \in Seq(STRING) : TRUE
Unchars(cs) == CHOOSE s \in STRING : TRUE
CharCode(c) == CHOOSE n \in Int : TRUE
HexBytes(s) == CHOOSE bs \in Seq(0..255) : TRUE
=============================================================================
