------------------------------- MODULE DecSqrt -------------------------------
(***************************************************************************)
(* Square root (property C05).                                             *)
(*  operational: integer square root of a scaled coefficient, the          *)
(*               remainder being the sticky information, then RoundTo;     *)
(*  declarative: SqrtOK - every comparison  a < sqrt(x)  is written        *)
(*               a^2 < x,  so no root is ever extracted.                   *)
(* mc/MC_Sqrt checks the first against the second.                         *)
(***************************************************************************)
EXTENDS DecOps

(* x = N * 10^e > 0.  Scale N by 10^k so that the exponent is even and the root has >= p+1 digits. *)
SqrtParts(N, e, p) ==
  LET need == 2 * p + 2
      k0 == IF Len(N) >= need THEN 0 ELSE need - Len(N)
      k  == IF IIsEven(ISub(e, IFromInt(k0))) THEN k0 ELSE k0 + 1
      N1 == Shl(N, k)
      S  == ISqrt(N1)
  IN [S |-> S, exact |-> Mul(S, S) = N1, e |-> IHalfFloor(ISub(e, IFromInt(k)))]     \* sqrt(x) in [S, S+1) * 10^e

(* sqrt(N * 10^e) rounded once to p digits: S, or S + 1/2 as a stand-in for "S plus something" *)
SqrtRound(N, e, p, mode) ==
  LET sp == SqrtParts(N, e, p)
  IN IF sp.exact THEN RoundTo(FALSE, sp.S, One, sp.e, p, mode)
     ELSE RoundTo(FALSE, Add(Mul(sp.S, Two), One), Two, sp.e, p, mode)

OpSqrt(z, x) ==
  LET p == IF z.prec # 0 THEN z.prec ELSE x.prec
  IN IF x.form # "zero" /\ x.neg THEN NaN(p, z.mode)                        \* sqrt of a negative number, -Inf included
     ELSE IF x.form # "finite" THEN Ok(Special(x.form, x.neg), p, z.mode, {"C05", "C04"})   \* sqrt(+-0) = +-0, sqrt(+Inf) = +Inf (IEEE special values: also C04's)
     ELSE OkFree(SqrtRound(x.dig, CoefExp(x), p, z.mode), p, z.mode, {"C05"}, {"acc"})

(***************************************************************************)
(* Declarative.  v = c * 10^q  (c the p-digit coefficient of the stored    *)
(* result r), x = N * 10^e.   Compare v^2 with x, midpoints squared with x.*)
(***************************************************************************)
(* compare (a * 10^i)^2 with N * 10^e *)
CmpSq(a, i, N, e) == CmpScaled(Mul(a, a), IAdd(i, i), N, One, e)
(* compare ((a * 10^i) / 2)^2 with N * 10^e, i.e. a^2 * 10^2i with 4N * 10^e *)
CmpSqHalf(a, i, N, e) == CmpScaled(Mul(a, a), IAdd(i, i), Mul(N, FromInt(4)), One, e)

SqrtOK(N, e, p, mode, r) ==
  LET c   == CoefP(r, p)
      q   == UnitExp(r, p)
      low == c = Pow10(p - 1)
      cV    == CmpSq(c, q, N, e)                                         \* v ? sqrt(x)
      cSucc == CmpSq(Add(c, One), q, N, e)
      cPred == IF low THEN CmpSq(Sub(Shl(c, 1), One), IAddInt(q, -1), N, e) ELSE CmpSq(Sub(c, One), q, N, e)
      mSucc == CmpSqHalf(Add(Mul(c, Two), One), q, N, e)                 \* (v + Succ(v))/2 ? sqrt(x)
      mPred == IF low THEN CmpSqHalf(Sub(Mul(Shl(c, 1), Two), One), IAddInt(q, -1), N, e)
               ELSE CmpSqHalf(Sub(Mul(c, Two), One), q, N, e)
      down == mode \in {ToZero, ToNegativeInf}
      up   == mode \in {AwayFromZero, ToPositiveInf}
  IN /\ r.form = "finite" /\ ~r.neg /\ Len(r.dig) <= p
     /\ CASE down -> cV <= 0 /\ cSucc > 0
          [] up   -> cPred < 0 /\ cV >= 0
          [] mode = ToNearestAway -> mPred <= 0 /\ mSucc > 0
          [] mode = ToNearestEven -> /\ mPred <= 0 /\ mSucc >= 0
                                     /\ (mSucc = 0 => IsEven(c))
                                     /\ (mPred = 0 => IsEven(c) \/ low)

(* is the stored value within one unit in the last place of sqrt(x)?  (the "faithful" deviation class) *)
SqrtFaithful(N, e, p, r) ==
  LET c == CoefP(r, p)
      q == UnitExp(r, p)
      low == c = Pow10(p - 1)
  IN /\ r.form = "finite" /\ ~r.neg /\ Len(r.dig) <= p
     /\ CmpSq(Add(c, One), q, N, e) > 0                                   \* v + ulp > sqrt(x)
     /\ (IF low THEN CmpSq(Sub(Shl(c, 1), One), IAddInt(q, -1), N, e) ELSE CmpSq(Sub(c, One), q, N, e)) < 0
=============================================================================
