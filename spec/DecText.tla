------------------------------- MODULE DecText -------------------------------
(***************************************************************************)
(* Text output (properties C11, C13): Text / Append / String /             *)
(* MarshalText / Format, as strconv.FormatFloat and package fmt lay        *)
(* floating-point numbers out.  The layout rules ARE the statement here;   *)
(* the digits printed are the correctly rounded ones (RoundCoef below,     *)
(* checked against the declarative CorrectlyRounded by mc/MC_Text).        *)
(* Output strings are built with \o from digit strings.                    *)
(***************************************************************************)
EXTENDS DecContext, Chars

IStr(i) == (IF i.neg THEN "-" ELSE "") \o ToStr(i.mag)

(***************************************************************************)
(* Rounding for output: |x| = dig * 10^(exp - Len(dig)) rounded to keep    *)
(* `keep` significant digits (keep may be <= 0: the rounding position is   *)
(* then at or above the leading digit and the result is 0 or one unit      *)
(* there).  The exponent is NOT range-limited: printing 9.99e2147483646    *)
(* with one digit gives 1e2147483647.  Result: [dig, exp] with dig = Zero  *)
(* for a zero result.                                                      *)
(***************************************************************************)
RoundCoef(neg, dig, exp, keep, mode) ==
  IF keep >= Len(dig) THEN [dig |-> dig, exp |-> exp]
  ELSE IF keep >= 1 THEN
    LET drop == Len(dig) - keep
        c    == Shr(dig, drop)
        rd   == DigitAt(dig, drop - 1)
        sticky == Low(dig, drop - 1) # Zero
        inc  == RoundsUp(mode, neg, rd, sticky, ~IsEven(c))       \* dig has no trailing zeros: something is always lost
        c1   == IF inc THEN Add(c, One) ELSE c
    IN IF Len(c1) > keep THEN [dig |-> One, exp |-> IAddInt(exp, 1)] ELSE [dig |-> StripTZ(c1), exp |-> exp]
  ELSE
    \* keep <= 0: the unit is u = 10^(exp - keep); |x|/u = 0.dig * 10^keep  < 1
    LET gtHalf == keep = 0 /\ (dig[Len(dig)] > 5 \/ (dig[Len(dig)] = 5 /\ Len(dig) > 1))
        eqHalf == keep = 0 /\ dig = <<5>>
        inc == CASE mode = ToZero -> FALSE [] mode = AwayFromZero -> TRUE
                 [] mode = ToNegativeInf -> neg [] mode = ToPositiveInf -> ~neg
                 [] mode = ToNearestAway -> gtHalf \/ eqHalf
                 [] mode = ToNearestEven -> gtHalf
    IN IF inc THEN [dig |-> One, exp |-> IAddInt(exp, 1 - keep)] ELSE [dig |-> Zero, exp |-> IZero]

(***************************************************************************)
(* Layouts.  d: BigNat digits (no trailing zeros), e: TLC integer exponent *)
(* (value 0.d * 10^e), both after rounding; d = Zero for a zero.           *)
(***************************************************************************)
MaxT(a, b) == IF a > b THEN a ELSE b
MinT(a, b) == IF a < b THEN a ELSE b

(* %f: ddddd.ddd with prec digits after the point *)
FmtF(d, e, prec) ==
  LET n  == Len(d)
      ip == IF e > 0 THEN (IF n >= e THEN MsdStr(d, 1, e) ELSE MsdStr(d, 1, n) \o Rep("0", e - n)) ELSE "0"
      lz == IF e < 0 THEN MinT(-e, prec) ELSE 0                       \* zeros right after the point
      s0 == MaxT(e, 0)                                                \* digits already used by the integer part
      nd == MaxT(0, MinT(n - s0, prec - lz))
  IN ip \o (IF prec > 0 THEN "." \o Rep("0", lz) \o MsdStr(d, s0 + 1, s0 + nd) \o Rep("0", prec - lz - nd) ELSE "")

(* exponent suffix: e+dd, at least two digits; ex is a BigInt *)
ExpStr(c, ex) == c \o (IF ex.neg THEN "-" ELSE "+") \o (IF Len(ex.mag) < 2 THEN "0" ELSE "") \o ToStr(ex.mag)

(* %e: d.ddde+dd with prec digits after the point; e is a BigInt here (exponent formats cover the whole range) *)
FmtE(d, e, c, prec) ==
  LET n == Len(d)
      m == MinT(n, prec + 1)
  IN (IF n = 0 THEN "0" ELSE MsdStr(d, 1, 1))
     \o (IF prec > 0 THEN "." \o (IF n > 1 THEN MsdStr(d, 2, m) ELSE "") \o Rep("0", prec - (MaxT(m, 1) - 1)) ELSE "")
     \o ExpStr(c, IF n = 0 THEN IZero ELSE IAddInt(e, -1))

(***************************************************************************)
(* Text / Append.  Returns [sign, body]: sign in {"", "-", "+"} ("+" only  *)
(* for +Inf), so that Format can pad between them without parsing.         *)
(***************************************************************************)
SignOf(x) == IF x.neg THEN "-" ELSE ""

TextParts(x, fmt, precArg) ==
  IF x.form = "inf" THEN [sign |-> IF x.neg THEN "-" ELSE "+", body |-> "Inf"]
  ELSE IF fmt = "b" THEN
    [sign |-> SignOf(x),
     body |-> IF x.form = "zero" THEN "0"
              ELSE MsdStr(x.dig, 1, Len(x.dig)) \o Rep("0", x.prec - Len(x.dig)) \o "e"
                   \o (LET ee == IAddInt(x.exp, -x.prec) IN (IF ee.neg THEN "" ELSE "+") \o IStr(ee))]
  ELSE IF fmt = "p" THEN
    [sign |-> SignOf(x),
     body |-> IF x.form = "zero" THEN "0"
              ELSE "0." \o MsdStr(x.dig, 1, Len(x.dig)) \o "e" \o (IF x.exp.neg THEN "" ELSE "+") \o IStr(x.exp)]
  ELSE IF fmt \notin {"e", "E", "f", "g", "G"} THEN [sign |-> "", body |-> "%" \o fmt]
  ELSE
    LET isz  == x.form = "zero"
        nd0  == IF isz THEN 0 ELSE Len(x.dig)
        xe   == IF isz THEN IZero ELSE x.exp                      \* a zero has no exponent
        shortest == precArg < 0
        \* number of significant digits to keep, and the precision handed to the layout
        gprec == IF fmt \in {"g", "G"} /\ precArg = 0 THEN 1 ELSE precArg
        keep == IF shortest THEN nd0
                ELSE CASE fmt \in {"e", "E"} -> 1 + precArg
                       [] fmt = "f" -> IToInt(xe) + precArg                \* may be <= 0
                       [] OTHER -> gprec
        r    == IF isz \/ shortest THEN [dig |-> IF isz THEN Zero ELSE x.dig, exp |-> xe]
                ELSE RoundCoef(x.neg, x.dig, xe, keep, x.mode)
        d    == r.dig
        nd   == Len(d)
        re   == IF nd = 0 THEN IZero ELSE r.exp
    IN [sign |-> SignOf(x),
        body |->
          CASE fmt \in {"e", "E"} -> FmtE(d, re, fmt, IF shortest THEN MaxT(nd - 1, 0) ELSE precArg)
            [] fmt = "f" -> FmtF(d, IToInt(re), IF shortest THEN MaxT(nd - IToInt(re), 0) ELSE precArg)
            [] OTHER ->                                           \* %g
                 LET prec == IF shortest THEN nd ELSE gprec
                     ex   == IToInt(IF ISmall(re) THEN re ELSE IMk(re.neg, FromInt(999999999)))   \* only compared with small numbers
                     eprec0 == IF prec > nd /\ nd >= ex THEN nd ELSE prec
                     eprec == IF shortest THEN 6 ELSE eprec0
                     X == ex - 1
                 IN IF X < -4 \/ X >= eprec
                    THEN FmtE(d, re, IF fmt = "g" THEN "e" ELSE "E", (IF prec > nd THEN nd ELSE prec) - 1)
                    ELSE FmtF(d, ex, MaxT((IF prec > ex THEN nd ELSE prec) - ex, 0))]

Text(x, fmt, prec) == LET t == TextParts(x, fmt, prec) IN t.sign \o t.body

(***************************************************************************)
(* Format (fmt.Formatter): verb, flags, width, precision as package fmt    *)
(* treats floating-point numbers.  fl = [plus, space, zero, minus].        *)
(***************************************************************************)
FormatText(x, verb, fl, hasWidth, width, hasPrec, precArg) ==
  LET v    == CASE verb = "F" -> "f" [] verb \in {"v", "s"} -> "g" [] OTHER -> verb          \* %s: like String (%.10g) unless a precision is given
      prec == IF hasPrec THEN precArg ELSE IF verb = "s" THEN 10 ELSE IF v \in {"g", "G"} THEN -1 ELSE 6
      t    == TextParts(x, v, prec)
      sign == IF t.sign = "-" THEN "-"
              ELSE IF fl.plus THEN "+" ELSE IF fl.space THEN " "
              ELSE t.sign                                          \* "+" of +Inf is always shown
      pad  == IF hasWidth /\ width > Len(sign) + Len(t.body) THEN width - Len(sign) - Len(t.body) ELSE 0
  IN IF fl.minus THEN sign \o t.body \o Rep(" ", pad)              \* '-' overrides '0'
     ELSE IF fl.zero /\ x.form # "inf" THEN sign \o Rep("0", pad) \o t.body
     ELSE Rep(" ", pad) \o sign \o t.body

(* number of significant digits printed with precision -1 (C11: exactly MinPrec, none dropped, none invented) *)
=============================================================================
