------------------------------- MODULE DecOps -------------------------------
(***************************************************************************)
(* One operator per public call of package decimal (arithmetic, attribute  *)
(* setters, raw access).  Each returns an outcome record                   *)
(*    [out  |-> "ok" | "nan",                                              *)
(*     d    |-> the receiver afterwards (a Dec with all attributes),       *)
(*     free |-> the fields the listed properties leave unconstrained,      *)
(*     pid  |-> the set of properties whose statements fix the value]              *)
(* The result depends on operand VALUES and on the receiver's precision    *)
(* and mode only - never on aliasing, buffers or the receiver's previous   *)
(* value: that the implementation conforms to such a specification is      *)
(* property C10.  The special-value dispatch has one disjunct per branch   *)
(* of the code (decimal.go Add/Sub/Mul/Quo/FMA) and is checked against the *)
(* declarative IEEE table by mc/MC_Special.                                *)
(***************************************************************************)
EXTENDS DecCore

CONSTANT MaxPrec                 \* 2^32-1 in the library; TLC integers stop at 2^31-1, so traces stay below

DefaultPrec == 34

MaxI(a, b) == IF a > b THEN a ELSE b
MinI(a, b) == IF a < b THEN a ELSE b

Outcome(out, d, free, pid) == [out |-> out, d |-> d, free |-> free, pid |-> pid, why |-> "-"]
OkFree(r, p, mode, pid, free) ==
  [out |-> "ok", d |-> MkDec(r.form, r.neg, r.dig, r.exp, p, mode, r.acc), free |-> free, pid |-> pid, why |-> r.why]
Ok(r, p, mode, pid) == OkFree(r, p, mode, pid, {})
(* an invalid operation: panics with ErrNaN; the receiver stays a valid Decimal with its   *)
(* (possibly just assigned) precision and its mode; value, sign, accuracy are unspecified   *)
NaN(p, mode) == [Outcome("nan", MkDec("zero", FALSE, Zero, IZero, p, mode, Exact), {"value", "acc"}, {"C04"}) EXCEPT !.why = "nan"]

Special(form, neg) == Res(form, neg, Zero, IZero, Exact)

(* a finite Decimal's value rounded to p digits, with sign neg *)
RoundDec(neg, x, p, mode) == RoundTo(neg, x.dig, One, CoefExp(x), p, mode)

(* "z.Set(x)" with an explicit sign: round if finite, keep zeros and infinities *)
SetLike(neg, x, p, mode) ==
  IF x.form = "finite" THEN RoundDec(neg, x, p, mode) ELSE Special(x.form, neg)

(* sign of an exactly zero sum of a and b (IEEE 754-2008 6.3) *)
ZeroSumNeg(aneg, bneg, mode) == IF aneg = bneg THEN aneg ELSE mode = ToNegativeInf

(* (+-) xN*10^xe  +  (+-) yN*10^ye, rounded once: align, add or subtract, round *)
SumFiniteFull(xneg, xN, xe, yneg, yN, ye, p, mode) ==
  LET e == IMin(xe, ye)
      a == Shl(xN, IToInt(ISub(xe, e)))
      b == Shl(yN, IToInt(ISub(ye, e)))
  IN IF xneg = yneg THEN RoundTo(xneg, Add(a, b), One, e, p, mode)
     ELSE IF a = b THEN Special("zero", mode = ToNegativeInf)
     ELSE IF Gt(a, b) THEN RoundTo(xneg, Sub(a, b), One, e, p, mode)
     ELSE RoundTo(yneg, Sub(b, a), One, e, p, mode)

(* The same value without aligning across a huge exponent gap: an addend that lies entirely more  *)
(* than p+3 digits below the other's LAST digit only decides "something non-zero down there" and  *)
(* can be replaced by one unit p+4 digits below that last digit (mc/MC_Sum checks the equivalence *)
(* with SumFiniteFull exhaustively on a bounded domain).                                          *)
SumFinite(xneg, xN, xe, yneg, yN, ye, p, mode) ==
  LET yFar == ILt(IAddInt(ye, Len(yN)), IAddInt(xe, -(p + 3)))       \* y < 10^(xe-p-3)
      xFar == ILt(IAddInt(xe, Len(xN)), IAddInt(ye, -(p + 3)))
  IN IF yFar THEN SumFiniteFull(xneg, xN, xe, yneg, One, IAddInt(xe, -(p + 4)), p, mode)
     ELSE IF xFar THEN SumFiniteFull(xneg, One, IAddInt(ye, -(p + 4)), yneg, yN, ye, p, mode)
     ELSE SumFiniteFull(xneg, xN, xe, yneg, yN, ye, p, mode)

Pid2(x, y, pid) == IF x.form = "finite" /\ y.form = "finite" THEN {pid} ELSE {"C04"}

(***************************************************************************)
(* Add / Sub:  x + (-1)^flip * y                                           *)
(***************************************************************************)
AddSub(z, x, y, flip) ==
  LET p    == IF z.prec # 0 THEN z.prec ELSE MaxI(x.prec, y.prec)
      yneg == (y.neg # flip)
      pid  == Pid2(x, y, "C01")
  IN CASE x.form = "finite" /\ y.form = "finite" ->
            LET r == SumFinite(x.neg, x.dig, CoefExp(x), yneg, y.dig, CoefExp(y), p, z.mode)
            IN Ok(r, p, z.mode, IF r.form = "zero" THEN {"C01", "C04"} ELSE pid)   \* a zero sum: the zero-sum sign rule (exact: +0, or -0 under ToNegativeInf; underflowed: the sign of the exact sum)
       [] x.form = "inf" /\ y.form = "inf" /\ x.neg # yneg -> NaN(p, z.mode)
       [] x.form = "zero" /\ y.form = "zero" ->
            Ok(Special("zero", ZeroSumNeg(x.neg, yneg, z.mode)), p, z.mode, pid)
       [] x.form = "inf" \/ y.form = "zero" -> Ok(SetLike(x.neg, x, p, z.mode), p, z.mode, pid)   \* +-Inf + y,  x + +-0
       [] OTHER -> Ok(SetLike(yneg, y, p, z.mode), p, z.mode, pid)                                \* +-0 + y,  x + +-Inf

OpAdd(z, x, y) == AddSub(z, x, y, FALSE)
OpSub(z, x, y) == AddSub(z, x, y, TRUE)

(***************************************************************************)
(* Mul / Quo                                                               *)
(***************************************************************************)
OpMul(z, x, y) ==
  LET p   == IF z.prec # 0 THEN z.prec ELSE MaxI(x.prec, y.prec)
      neg == x.neg # y.neg
      pid == Pid2(x, y, "C01")
  IN CASE x.form = "finite" /\ y.form = "finite" ->
            Ok(RoundTo(neg, Mul(x.dig, y.dig), One, IAdd(CoefExp(x), CoefExp(y)), p, z.mode), p, z.mode, pid)
       [] (x.form = "zero" /\ y.form = "inf") \/ (x.form = "inf" /\ y.form = "zero") -> NaN(p, z.mode)
       [] x.form = "inf" \/ y.form = "inf" -> Ok(Special("inf", neg), p, z.mode, pid)
       [] OTHER -> Ok(Special("zero", neg), p, z.mode, pid)

OpQuo(z, x, y) ==
  LET p   == IF z.prec # 0 THEN z.prec ELSE MaxI(x.prec, y.prec)
      neg == x.neg # y.neg
      pid == Pid2(x, y, "C01")
  IN CASE x.form = "finite" /\ y.form = "finite" ->
            Ok(RoundTo(neg, x.dig, y.dig, ISub(CoefExp(x), CoefExp(y)), p, z.mode), p, z.mode, pid)
       [] (x.form = "zero" /\ y.form = "zero") \/ (x.form = "inf" /\ y.form = "inf") -> NaN(p, z.mode)
       [] x.form = "zero" \/ y.form = "inf" -> Ok(Special("zero", neg), p, z.mode, pid)
       [] OTHER -> Ok(Special("inf", neg), p, z.mode, pid)

(***************************************************************************)
(* FMA: x*y + u with one rounding (C03), IEEE special values (C04)         *)
(***************************************************************************)
OpFMA(z, x, y, u) ==
  LET p    == IF z.prec # 0 THEN z.prec ELSE MaxI(MaxI(x.prec, y.prec), u.prec)
      pneg == x.neg # y.neg                     \* sign of the product
      allf == x.form = "finite" /\ y.form = "finite" /\ u.form = "finite"
      pid  == IF allf THEN {"C03"} ELSE {"C03", "C04"}     \* C03 quantifies over zeros and infinities too (sign rule of an exactly zero sum, aliasing)
  IN CASE (x.form = "zero" /\ y.form = "inf") \/ (x.form = "inf" /\ y.form = "zero") -> NaN(p, z.mode)
       [] x.form = "inf" \/ y.form = "inf" ->                      \* infinite product
            IF u.form = "inf" /\ u.neg # pneg THEN NaN(p, z.mode)
            ELSE Ok(Special("inf", pneg), p, z.mode, pid)
       [] x.form = "zero" \/ y.form = "zero" ->                    \* zero product (of sign pneg) + u
            IF u.form = "zero" THEN Ok(Special("zero", ZeroSumNeg(pneg, u.neg, z.mode)), p, z.mode, pid)
            ELSE Ok(SetLike(u.neg, u, p, z.mode), p, z.mode, pid)
       [] OTHER ->                                                 \* finite non-zero product
            LET N == Mul(x.dig, y.dig)
                e == IAdd(CoefExp(x), CoefExp(y))
            IN CASE u.form = "inf"  -> Ok(Special("inf", u.neg), p, z.mode, pid)
                 [] u.form = "zero" -> Ok(RoundTo(pneg, N, One, e, p, z.mode), p, z.mode, pid)
                 [] OTHER -> LET r == SumFinite(pneg, N, e, u.neg, u.dig, CoefExp(u), p, z.mode)
                             IN Ok(r, p, z.mode, IF r.form = "zero" THEN {"C03", "C04"} ELSE pid)

(* Mul followed by Add through a temporary of the receiver's precision and mode: *)
(* what FMA must differ from exactly when the intermediate rounding matters       *)
MulThenAdd(z, x, y, u) ==
  LET p == IF z.prec # 0 THEN z.prec ELSE MaxI(MaxI(x.prec, y.prec), u.prec)
      t == OpMul(MkDec("zero", FALSE, Zero, IZero, p, z.mode, Exact), x, y)
  IN IF t.out = "nan" THEN t ELSE OpAdd(MkDec("zero", FALSE, Zero, IZero, p, z.mode, Exact), t.d, u)

(***************************************************************************)
(* Single-operand operations                                               *)
(***************************************************************************)
OpSet(z, x) ==
  LET p == IF z.prec # 0 THEN z.prec ELSE x.prec
  IN Ok(SetLike(x.neg, x, p, z.mode), p, z.mode, IF x.form = "finite" THEN {"C01"} ELSE {"C04"})

(* Neg/Abs: "round, then change the sign" (C01 says so); accuracy is not in C02's list *)
OpNeg(z, x) ==
  LET p == IF z.prec # 0 THEN z.prec ELSE x.prec
      r == SetLike(x.neg, x, p, z.mode)
  IN OkFree([r EXCEPT !.neg = ~r.neg], p, z.mode, IF x.form = "finite" THEN {"C01"} ELSE {"C04"}, {"acc"})

OpAbs(z, x) ==
  LET p == IF z.prec # 0 THEN z.prec ELSE x.prec
      r == SetLike(x.neg, x, p, z.mode)
  IN OkFree([r EXCEPT !.neg = FALSE], p, z.mode, IF x.form = "finite" THEN {"C01"} ELSE {"C04"}, {"acc"})

(* Copy: everything, attributes included (documented; "DOC" level) *)
OpCopy(z, x) == Outcome("ok", x, {}, {"DOC"})

OpSetPrec(z, prec) ==
  IF prec = 0
  THEN (IF z.form = "finite"
        THEN Outcome("ok", MkDec("zero", z.neg, Zero, IZero, 0, z.mode, IF z.neg THEN Above ELSE Below), {}, {"DOC"})
        ELSE Outcome("ok", [z EXCEPT !.prec = 0, !.acc = Exact], {}, {"DOC"}))
  ELSE LET p == MinI(prec, MaxPrec)
       IN Ok(SetLike(z.neg, z, p, z.mode), p, z.mode, IF z.form = "finite" THEN {"C01"} ELSE {"C04"})

OpSetMode(z, m) == Outcome("ok", [z EXCEPT !.mode = m, !.acc = Exact], {}, {"DOC"})
OpSetInf(z, neg) == Outcome("ok", MkDec("inf", neg, Zero, IZero, z.prec, z.mode, Exact), {}, {"DOC"})

(***************************************************************************)
(* MantExp / SetMantExp (C20)                                              *)
(***************************************************************************)
(* z := mant * 10^e with mant's precision and mode; the exponent sum is exact (BigInt) *)
OpSetMantExp(z, m, e) ==
  IF m.form = "finite"
  THEN Ok(RoundTo(m.neg, m.dig, One, IAdd(CoefExp(m), e), m.prec, m.mode), m.prec, m.mode, {"C20"})
  ELSE Ok(Special(m.form, m.neg), m.prec, m.mode, {"C20"})

(* x.MantExp(z): returns x's exponent (0 for zeros and infinities); z, if given, := x with exponent 0 *)
MantExpRet(x) == IF x.form = "finite" THEN x.exp ELSE IZero
OpMantExp(z, x) ==
  OkFree([form |-> x.form, neg |-> x.neg, dig |-> x.dig, exp |-> IZero, acc |-> x.acc, why |-> "special"],
         x.prec, x.mode, {"C20"}, {"acc"})

(***************************************************************************)
(* Raw mantissa access (C20).  words: little-endian word vector (BigNats   *)
(* below 10^dw), e: BigInt.  The receiver becomes the POSITIVE value       *)
(* 0.words * 10^e = N * 10^(e - dw*len), rounded to its precision; an      *)
(* all-zero (or empty) slice gives +0.  For a precision-0 receiver the     *)
(* documentation names no precision: pobs (the precision read back) is     *)
(* used, and the caller checks that nothing was rounded then.              *)
(***************************************************************************)
OpSetBitsExp(z, words, e, dw, pobs) ==
  LET N == ConcatWords(words, dw)
      p == IF z.prec # 0 THEN z.prec ELSE pobs
  IN IF N = Zero THEN OkFree(Special("zero", FALSE), z.prec, z.mode, {"C20"}, {})
     ELSE OkFree(RoundTo(FALSE, N, One, IAddInt(e, -(dw * Len(words))), IF p = 0 THEN 1 ELSE p, z.mode), p, z.mode, {"C20"},
                 IF z.prec = 0 THEN {"prec"} ELSE {})

(* the mantissa words of z itself (as BitsExp returns them) with a new exponent *)
OpSetBitsExpSelf(z, e, pobs) ==
  IF z.form # "finite" THEN OkFree(Special("zero", FALSE), z.prec, z.mode, {"C20"}, {})
  ELSE LET p == IF z.prec # 0 THEN z.prec ELSE pobs
       IN Ok(RoundTo(FALSE, z.dig, One, IAddInt(e, -Len(z.dig)), p, z.mode), p, z.mode, {"C20"})

(***************************************************************************)
(* Machine-integer setters (C14, accuracy C02)                             *)
(***************************************************************************)
(* neg, magnitude N (BigNat), times 10^e *)
OpSetIntLike(z, neg, N, e, pdef) ==
  LET p == IF z.prec # 0 THEN z.prec ELSE pdef
  IN IF N = Zero THEN Ok(Special("zero", neg), p, z.mode, {"C14"})
     ELSE Ok(RoundTo(neg, N, One, e, p, z.mode), p, z.mode, {"C14"})

OpSetInt64(z, neg, N)  == OpSetIntLike(z, neg, N, IZero, DefaultPrec)
OpSetUint64(z, N)      == OpSetIntLike(z, FALSE, N, IZero, DefaultPrec)
OpNewDecimal(neg, N, e) == OpSetIntLike(ZeroValue, neg, N, e, DefaultPrec)

(***************************************************************************)
(* The invalid operations, declaratively (C04): the extended-real result   *)
(* is undefined.                                                           *)
(***************************************************************************)
InvalidAdd(x, y, flip) == x.form = "inf" /\ y.form = "inf" /\ x.neg # (y.neg # flip)
InvalidMul(x, y) == (x.form = "zero" /\ y.form = "inf") \/ (x.form = "inf" /\ y.form = "zero")
InvalidQuo(x, y) == (x.form = "zero" /\ y.form = "zero") \/ (x.form = "inf" /\ y.form = "inf")
InvalidFMA(x, y, u) == \/ InvalidMul(x, y)
                       \/ ((x.form = "inf" \/ y.form = "inf") /\ u.form = "inf" /\ u.neg # (x.neg # y.neg))
=============================================================================
