------------------------------- MODULE DecAlgo -------------------------------
(***************************************************************************)
(* Long division as the library does it (dec.go: div, divW, divLarge,      *)
(* divBasic - Knuth's Algorithm D with the q̂ correction loop and the       *)
(* add-back step), transcribed statement by statement over word vectors    *)
(* in base Bs (little-endian sequences of TLC integers 0..Bs-1; the        *)
(* library's base is 10^19, the bounded model uses 4 and 10, where events  *)
(* that have probability 2/10^19 per random input happen all the time).    *)
(*                                                                         *)
(* AddBackWraps names the defect D1 of the pinned tree: FALSE = the carry  *)
(* of the add-back is added to u[j+n] with a plain += (right for binary    *)
(* words that wrap at 2^64, wrong for decimal words), TRUE = the repaired  *)
(* code.  mc/MC_Algo checks  u = q*v + r,  r < v,  every word < Bs  for    *)
(* EVERY dividend and divisor of the bounded lengths.                      *)
(***************************************************************************)
EXTENDS Integers, Sequences

CONSTANTS Bs,                \* word base
          AddBackWraps       \* BOOLEAN

RECURSIVE ValW(_)
ValW(w) == IF Len(w) = 0 THEN 0 ELSE w[1] + Bs * ValW(Tail(w))

RECURSIVE NormW(_)
NormW(w) == IF Len(w) > 0 /\ w[Len(w)] = 0 THEN NormW(SubSeq(w, 1, Len(w) - 1)) ELSE w

WordsOK(w) == \A k \in 1..Len(w) : w[k] >= 0 /\ w[k] < Bs

(* z = x*y + r over n words, returns <<z, carry>>   (mulAdd10VWW) *)
RECURSIVE MulAddVWW(_, _, _)
MulAddVWW(x, y, c) ==
  IF Len(x) = 0 THEN <<<<>>, c>>
  ELSE LET t == x[1] * y + c
           rest == MulAddVWW(Tail(x), y, t \div Bs)
       IN <<<<t % Bs>> \o rest[1], rest[2]>>

(* z = x - y over Len(x) words (y shorter is padded with zeros), returns <<z, borrow>>   (sub10VV) *)
RECURSIVE SubVV(_, _, _)
SubVV(x, y, b) ==
  IF Len(x) = 0 THEN <<<<>>, b>>
  ELSE LET yd == IF Len(y) = 0 THEN 0 ELSE y[1]
           d  == x[1] - yd - b
           rest == SubVV(Tail(x), IF Len(y) = 0 THEN <<>> ELSE Tail(y), IF d < 0 THEN 1 ELSE 0)
       IN <<<<IF d < 0 THEN d + Bs ELSE d>> \o rest[1], rest[2]>>

RECURSIVE AddVV(_, _, _)
AddVV(x, y, c) ==
  IF Len(x) = 0 THEN <<<<>>, c>>
  ELSE LET s == x[1] + y[1] + c
           rest == AddVV(Tail(x), Tail(y), IF s >= Bs THEN 1 ELSE 0)
       IN <<<<IF s >= Bs THEN s - Bs ELSE s>> \o rest[1], rest[2]>>

(* division of a vector by one word, most significant first: <<quotient words, remainder>>   (divW / div10VWW) *)
RECURSIVE DivVW(_, _, _)
DivVW(x, y, r) ==
  IF Len(x) = 0 THEN <<<<>>, r>>
  ELSE LET t == r * Bs + x[Len(x)]
           rest == DivVW(SubSeq(x, 1, Len(x) - 1), y, t % y)
       IN <<rest[1] \o <<t \div y>>, rest[2]>>

Splice(u, j, w) == [k \in 1..Len(u) |-> IF k > j /\ k <= j + Len(w) THEN w[k - j] ELSE u[k]]     \* u[j:j+len(w)] = w (0-based j)

(* the q̂ correction loop of D3: while q̂*v[n-2] > b*r̂ + u[j+n-2] *)
RECURSIVE QhatFix(_, _, _, _, _)
QhatFix(qhat, rhat, vn1, vn2, ujn2) ==
  IF qhat * vn2 > rhat * Bs + ujn2 /\ rhat < Bs        \* (once r̂ >= b the test is false: x1 < b <= r̂)
  THEN QhatFix(qhat - 1, rhat + vn1, vn1, vn2, ujn2)
  ELSE qhat

(* one iteration j of divBasic: state st = [u, q, bad]; bad records a word that left the range *)
DivBasicStep(st, v, j, m) ==
  LET n   == Len(v)
      u   == st.u
      vn1 == v[n]
      ujn == IF j + n < Len(u) THEN u[j + n + 1] ELSE 0
      qh0 == IF ujn # vn1
             THEN LET num == ujn * Bs + u[j + n]                    \* (u[j+n], u[j+n-1]) / v[n-1]
                  IN QhatFix(num \div vn1, num % vn1, vn1, v[n - 1], u[j + n - 1])
             ELSE Bs - 1
      qv  == LET t == MulAddVWW(v, qh0, 0) IN t[1] \o <<t[2]>>      \* q̂*v, n+1 words
      qhl == IF j + n + 1 > Len(u) /\ qv[n + 1] = 0 THEN n ELSE n + 1
      sb  == SubVV(SubSeq(u, j + 1, j + qhl), SubSeq(qv, 1, qhl), 0)
      u1  == Splice(u, j, sb[1])
      \* D4/D6: the estimate was one too large: add v back
      ab  == AddVV(SubSeq(u1, j + 1, j + n), v, 0)
      u2a == Splice(u1, j, ab[1])
      top == u2a[j + n + 1] + ab[2]
      u2  == IF n < qhl
             THEN [u2a EXCEPT ![j + n + 1] = IF AddBackWraps THEN top % Bs ELSE top]
             ELSE u2a
      borrowed == sb[2] # 0
      uN  == IF borrowed THEN u2 ELSE u1
      qh  == IF borrowed THEN qh0 - 1 ELSE qh0
      skip == j = m /\ m = Len(st.q) /\ qh = 0
  IN [u |-> uN, q |-> IF skip THEN st.q ELSE [st.q EXCEPT ![j + 1] = qh],
      bad |-> st.bad \/ ~WordsOK(uN) \/ qh < 0 \/ qh >= Bs]

RECURSIVE DivBasicLoop(_, _, _, _)
DivBasicLoop(st, v, j, m) == IF j < 0 THEN st ELSE DivBasicLoop(DivBasicStep(st, v, j, m), v, j - 1, m)

(* divLarge: normalise, divBasic, un-normalise.  len(v) >= 2, u >= v.  Returns [q, r, bad] *)
DivLarge(uIn, vIn) ==
  LET n == Len(vIn)  m == Len(uIn)
      d == Bs \div (vIn[n] + 1)
      v == MulAddVWW(vIn, d, 0)[1]
      ut == MulAddVWW(uIn, d, 0)
      u == ut[1] \o <<ut[2]>>
      st == DivBasicLoop([u |-> u, q |-> [k \in 1..(m - n + 1) |-> 0], bad |-> FALSE], v, m - n, m - n)
      r == DivVW(SubSeq(st.u, 1, n), d, 0)
  IN [q |-> NormW(st.q), r |-> NormW(r[1]), bad |-> st.bad \/ r[2] # 0 \/ ~WordsOK(SubSeq(st.u, 1, n)) \/ ValW(SubSeq(st.u, n + 1, Len(st.u))) # 0]

(* dec.div *)
Div(u, v) ==
  IF ValW(u) < ValW(v) THEN [q |-> <<>>, r |-> NormW(u), bad |-> FALSE]
  ELSE IF Len(v) = 1 THEN LET t == DivVW(u, v[1], 0) IN [q |-> NormW(t[1]), r |-> NormW(<<t[2]>>), bad |-> FALSE]
  ELSE DivLarge(u, v)

DivCorrect(u, v) ==
  LET d == Div(u, v)
  IN /\ ~d.bad
     /\ WordsOK(d.q) /\ WordsOK(d.r)
     /\ ValW(u) = ValW(d.q) * ValW(v) + ValW(d.r)
     /\ ValW(d.r) < ValW(v)
=============================================================================
