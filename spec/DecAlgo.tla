------------------------------- MODULE DecAlgo -------------------------------
(***************************************************************************)
(* Long division as the library does it (dec.go: div, divW, divLarge,      *)
(* divBasic - Knuth's Algorithm D with the q̂ correction loop and the       *)
(* add-back step), transcribed statement by statement over word vectors    *)
(* in base Bs (little-endian sequences of TLC integers 0..Bs-1; the        *)
(* library's base is 10^19, the bounded model uses 4 and 10, where events  *)
(* that have probability 2/10^19 per random input happen all the time).    *)
(*                                                                         *)
(* AddBackWraps names the defect D1 of the pinned tree: FALSE = the carry  *)
(* of the add-back is added to u[j+n] with a plain += (right for binary    *)
(* words that wrap at 2^64, wrong for decimal words), TRUE = the repaired  *)
(* code.  mc/MC_Algo checks  u = q*v + r,  r < v,  every word < Bs  for    *)
(* EVERY dividend and divisor of the bounded lengths.                      *)
(***************************************************************************)
EXTENDS Integers, Sequences

CONSTANTS Bs,                \* word base
          AddBackWraps,      \* BOOLEAN
          KarThr,            \* decKaratsubaThreshold      (30 in the library, a tuning variable)
          BasicSqrThr,       \* decBasicSqrThreshold       (10)
          KarSqrThr,         \* decKaratsubaSqrThreshold   (50)
          DivRecThr,         \* divRecursiveThreshold      (100); >= 4, or the recursion does not shrink the divisor
          LowBlockAtB        \* BOOLEAN: TRUE = the lowest block of the recursive division is split at B (defect D25 of
                             \* the pinned tree, math/big issue 42552), FALSE = at B-1 (the repaired code)

RECURSIVE ValW(_)
ValW(w) == IF Len(w) = 0 THEN 0 ELSE w[1] + Bs * ValW(Tail(w))

RECURSIVE NormW(_)
NormW(w) == IF Len(w) > 0 /\ w[Len(w)] = 0 THEN NormW(SubSeq(w, 1, Len(w) - 1)) ELSE w

WordsOK(w) == \A k \in 1..Len(w) : w[k] >= 0 /\ w[k] < Bs

(* z = x*y + r over n words, returns <<z, carry>>   (mulAdd10VWW) *)
RECURSIVE MulAddVWW(_, _, _)
MulAddVWW(x, y, c) ==
  IF Len(x) = 0 THEN <<<<>>, c>>
  ELSE LET t == x[1] * y + c
           rest == MulAddVWW(Tail(x), y, t \div Bs)
       IN <<<<t % Bs>> \o rest[1], rest[2]>>

(* z = x - y over Len(x) words (y shorter is padded with zeros), returns <<z, borrow>>   (sub10VV) *)
RECURSIVE SubVV(_, _, _)
SubVV(x, y, b) ==
  IF Len(x) = 0 THEN <<<<>>, b>>
  ELSE LET yd == IF Len(y) = 0 THEN 0 ELSE y[1]
           d  == x[1] - yd - b
           rest == SubVV(Tail(x), IF Len(y) = 0 THEN <<>> ELSE Tail(y), IF d < 0 THEN 1 ELSE 0)
       IN <<<<IF d < 0 THEN d + Bs ELSE d>> \o rest[1], rest[2]>>

RECURSIVE AddVV(_, _, _)
AddVV(x, y, c) ==
  IF Len(x) = 0 THEN <<<<>>, c>>
  ELSE LET s == x[1] + y[1] + c
           rest == AddVV(Tail(x), Tail(y), IF s >= Bs THEN 1 ELSE 0)
       IN <<<<IF s >= Bs THEN s - Bs ELSE s>> \o rest[1], rest[2]>>

(* division of a vector by one word, most significant first: <<quotient words, remainder>>   (divW / div10VWW) *)
RECURSIVE DivVW(_, _, _)
DivVW(x, y, r) ==
  IF Len(x) = 0 THEN <<<<>>, r>>
  ELSE LET t == r * Bs + x[Len(x)]
           rest == DivVW(SubSeq(x, 1, Len(x) - 1), y, t % y)
       IN <<rest[1] \o <<t \div y>>, rest[2]>>

Splice(u, j, w) == [k \in 1..Len(u) |-> IF k > j /\ k <= j + Len(w) THEN w[k - j] ELSE u[k]]     \* u[j:j+len(w)] = w (0-based j)

(* the q̂ correction loop of D3: while q̂*v[n-2] > b*r̂ + u[j+n-2] *)
RECURSIVE QhatFix(_, _, _, _, _)
QhatFix(qhat, rhat, vn1, vn2, ujn2) ==
  IF qhat * vn2 > rhat * Bs + ujn2 /\ rhat < Bs        \* (once r̂ >= b the test is false: x1 < b <= r̂)
  THEN QhatFix(qhat - 1, rhat + vn1, vn1, vn2, ujn2)
  ELSE qhat

(* one iteration j of divBasic: state st = [u, q, bad]; bad records a word that left the range *)
DivBasicStep(st, v, j, m) ==
  LET n   == Len(v)
      u   == st.u
      vn1 == v[n]
      ujn == IF j + n < Len(u) THEN u[j + n + 1] ELSE 0
      qh0 == IF ujn # vn1
             THEN LET num == ujn * Bs + u[j + n]                    \* (u[j+n], u[j+n-1]) / v[n-1]
                  IN QhatFix(num \div vn1, num % vn1, vn1, v[n - 1], u[j + n - 1])
             ELSE Bs - 1
      qv  == LET t == MulAddVWW(v, qh0, 0) IN t[1] \o <<t[2]>>      \* q̂*v, n+1 words
      qhl == IF j + n + 1 > Len(u) /\ qv[n + 1] = 0 THEN n ELSE n + 1
      sb  == SubVV(SubSeq(u, j + 1, j + qhl), SubSeq(qv, 1, qhl), 0)
      u1  == Splice(u, j, sb[1])
      \* D4/D6: the estimate was one too large: add v back
      ab  == AddVV(SubSeq(u1, j + 1, j + n), v, 0)
      u2a == Splice(u1, j, ab[1])
      top == u2a[j + n + 1] + ab[2]
      u2  == IF n < qhl
             THEN [u2a EXCEPT ![j + n + 1] = IF AddBackWraps THEN top % Bs ELSE top]
             ELSE u2a
      borrowed == sb[2] # 0
      uN  == IF borrowed THEN u2 ELSE u1
      qh  == IF borrowed THEN qh0 - 1 ELSE qh0
      skip == j = m /\ m = Len(st.q) /\ qh = 0
  IN [u |-> uN, q |-> IF skip \/ j + 1 > Len(st.q) THEN st.q ELSE [st.q EXCEPT ![j + 1] = qh],
      bad |-> st.bad \/ ~WordsOK(uN) \/ qh < 0 \/ qh >= Bs \/ (~skip /\ j + 1 > Len(st.q))]     \* q[j] out of range: a Go panic

RECURSIVE DivBasicLoop(_, _, _, _)
DivBasicLoop(st, v, j, m) == IF j < 0 THEN st ELSE DivBasicLoop(DivBasicStep(st, v, j, m), v, j - 1, m)

(***************************************************************************)
(* Multiplication and squaring (dec.go: mul, decBasicMul, decKaratsuba,    *)
(* sqr, decBasicSqr, decKaratsubaSqr, decAddAt, decKaratsubaAdd/Sub), with *)
(* the layout of the scratch buffer z as in the code: a call works on      *)
(* z[o : o+6n] and the functions below return the whole updated buffer.    *)
(***************************************************************************)
Zeros(n) == [k \in 1..n |-> 0]
MaxI(a, b) == IF a > b THEN a ELSE b
ClearFrom(z, j) == [k \in 1..Len(z) |-> IF k > j THEN 0 ELSE z[k]]                   \* z[j:].clear()
OutOfRange == <<-1>>                                                                  \* stands for a Go slice-bounds panic (fails WordsOK)

(* addMul10VVW: z + x*y + c over Len(x) words: <<z', carry>> *)
RECURSIVE AddMulVVW(_, _, _, _)
AddMulVVW(z, x, y, c) ==
  IF Len(x) = 0 THEN <<<<>>, c>>
  ELSE LET t == x[1] * y + z[1] + c
           rest == AddMulVVW(Tail(z), Tail(x), y, t \div Bs)
       IN <<<<t % Bs>> \o rest[1], rest[2]>>

(* add10VW / sub10VW: x +- c over Len(x) words: <<z, carry>> *)
RECURSIVE AddVW(_, _)
AddVW(x, c) ==
  IF Len(x) = 0 THEN <<<<>>, c>>
  ELSE LET t == x[1] + c
           rest == AddVW(Tail(x), IF t >= Bs THEN 1 ELSE 0)
       IN <<<<IF t >= Bs THEN t - Bs ELSE t>> \o rest[1], rest[2]>>
RECURSIVE SubVW(_, _)
SubVW(x, c) ==
  IF Len(x) = 0 THEN <<<<>>, c>>
  ELSE LET t == x[1] - c
           rest == SubVW(Tail(x), IF t < 0 THEN 1 ELSE 0)
       IN <<<<IF t < 0 THEN t + Bs ELSE t>> \o rest[1], rest[2]>>

(* decBasicMul: the result occupies Len(x)+Len(y) words *)
RECURSIVE BasicMulLoop(_, _, _, _)
BasicMulLoop(z, x, y, i) ==
  IF i >= Len(y) THEN z
  ELSE IF y[i + 1] = 0 THEN BasicMulLoop(z, x, y, i + 1)
  ELSE LET am == AddMulVVW(SubSeq(z, i + 1, i + Len(x)), x, y[i + 1], 0)
       IN BasicMulLoop([Splice(z, i, am[1]) EXCEPT ![Len(x) + i + 1] = am[2]], x, y, i + 1)
BasicMul(x, y) == BasicMulLoop(Zeros(Len(x) + Len(y)), x, y, 0)

(* decAddAt: z += x * Bs^i ; the carry is propagated to the end of z and then dropped *)
AddAt(z, x, i) ==
  LET n == Len(x)
  IN IF n = 0 THEN z
     ELSE IF i + n > Len(z) THEN OutOfRange
     ELSE LET a  == AddVV(SubSeq(z, i + 1, i + n), x, 0)
              z1 == Splice(z, i, a[1])
          IN IF a[2] # 0 /\ i + n < Len(z) THEN Splice(z1, i + n, AddVW(SubSeq(z1, i + n + 1, Len(z1)), a[2])[1]) ELSE z1

(* decKaratsubaAdd / Sub on z[o:]: n words, the carry goes into the n/2 words above and no further *)
KarAdd(z, o, x, n) ==
  LET a  == AddVV(SubSeq(z, o + 1, o + n), SubSeq(x, 1, n), 0)
      z1 == Splice(z, o, a[1])
  IN IF a[2] # 0 THEN Splice(z1, o + n, AddVW(SubSeq(z1, o + n + 1, o + n + (n \div 2)), a[2])[1]) ELSE z1
KarSub(z, o, x, n) ==
  LET a  == SubVV(SubSeq(z, o + 1, o + n), SubSeq(x, 1, n), 0)
      z1 == Splice(z, o, a[1])
  IN IF a[2] # 0 THEN Splice(z1, o + n, SubVW(SubSeq(z1, o + n + 1, o + n + (n \div 2)), a[2])[1]) ELSE z1

(* |a - b| and whether a < b, as the code does it: subtract, and the other way round on a borrow *)
AbsDiff(a, b) == LET d == SubVV(a, b, 0) IN IF d[2] # 0 THEN [w |-> SubVV(b, a, 0)[1], neg |-> TRUE] ELSE [w |-> d[1], neg |-> FALSE]

(* decKaratsuba(z[o:], x, y): Len(x) = Len(y) = n, Len(z) >= o + 6n; product in z[o : o+2n] *)
RECURSIVE Karatsuba(_, _, _, _)
Karatsuba(z, o, x, y) ==
  LET n == Len(y)
  IN IF n % 2 # 0 \/ n < KarThr \/ n < 2 THEN Splice(z, o, BasicMul(x, y))
     ELSE LET n2 == n \div 2
              x1 == SubSeq(x, n2 + 1, n)   x0 == SubSeq(x, 1, n2)
              y1 == SubSeq(y, n2 + 1, n)   y0 == SubSeq(y, 1, n2)
              za == Karatsuba(z, o, x0, y0)                      \* z0 = x0*y0 in z[0:n]
              zb == Karatsuba(za, o + n, x1, y1)                 \* z2 = x1*y1 in z[n:2n]
              xd == AbsDiff(x1, x0)                              \* x1-x0 in z[2n : 2n+n2]
              yd == AbsDiff(y0, y1)                              \* y0-y1 in z[2n+n2 : 3n]
              zc == Splice(Splice(zb, o + 2 * n, xd.w), o + 2 * n + n2, yd.w)
              zd == Karatsuba(zc, o + 3 * n, xd.w, yd.w)         \* p in z[3n : 4n]
              r  == SubSeq(zd, o + 1, o + 2 * n)                 \* copy of z2:z0 in z[4n : 6n]
              ze == Splice(zd, o + 4 * n, r)
              zf == KarAdd(ze, o + n2, r, n)
              zg == KarAdd(zf, o + n2, SubSeq(r, n + 1, 2 * n), n)
              p  == SubSeq(zg, o + 3 * n + 1, o + 4 * n)
          IN IF xd.neg = yd.neg THEN KarAdd(zg, o + n2, p, n) ELSE KarSub(zg, o + n2, p, n)

RECURSIVE KarLenI(_, _, _)
KarLenI(n, thr, sh) == IF n > thr THEN KarLenI(n \div 2, thr, sh * 2) ELSE n * sh
KarLen(n, thr) == KarLenI(n, thr, 1)

(* dec.mul (operands as given: the callers below also pass unnormalised ones, as the code does) *)
RECURSIVE Mul(_, _)
RECURSIVE MulRest(_, _, _, _, _, _)
MulRest(z, x, y0, y1, k, i) ==                                   \* add xi*y0<<i, xi*y1<<(i+k) for i = k, 2k, ...
  IF i >= Len(x) THEN z
  ELSE LET xi == NormW(SubSeq(x, i + 1, IF i + k < Len(x) THEN i + k ELSE Len(x)))
           za == AddAt(z, Mul(xi, y0), i)
           zb == IF za = OutOfRange THEN za ELSE AddAt(za, Mul(xi, y1), i + k)
       IN IF zb = OutOfRange THEN zb ELSE MulRest(zb, x, y0, y1, k, i + k)
Mul(x, y) ==
  LET m == Len(x)  n == Len(y)
  IN IF m < n THEN Mul(y, x)
     ELSE IF m = 0 \/ n = 0 THEN <<>>
     ELSE IF n = 1 THEN LET t == MulAddVWW(x, y[1], 0) IN NormW(t[1] \o <<t[2]>>)
     ELSE IF n < KarThr THEN NormW(BasicMul(x, y))
     ELSE LET k  == KarLen(n, KarThr)
              x0 == SubSeq(x, 1, k)   y0 == SubSeq(y, 1, k)
              zk == Karatsuba(Zeros(MaxI(6 * k, m + n)), 0, x0, y0)
              z0 == ClearFrom(SubSeq(zk, 1, m + n), 2 * k)
          IN IF k < n \/ m # n
             THEN LET y1 == SubSeq(y, k + 1, n)
                      za == AddAt(z0, Mul(NormW(x0), y1), k)
                  IN IF za = OutOfRange THEN za ELSE NormW(MulRest(za, x, NormW(y0), y1, k, k))
             ELSE NormW(z0)

(* decBasicSqr: the squares x[i]^2 in z, the products x[i]*x[j] (j < i) in t, doubled, then added *)
RECURSIVE BasicSqrT(_, _, _)
BasicSqrT(t, x, i) ==
  IF i >= Len(x) THEN t
  ELSE LET am == AddMulVVW(SubSeq(t, i + 1, 2 * i), SubSeq(x, 1, i), x[i + 1], 0)
       IN BasicSqrT([Splice(t, i, am[1]) EXCEPT ![2 * i + 1] = am[2]], x, i + 1)
BasicSqr(x) ==
  LET n   == Len(x)
      zsq == [k \in 1..(2 * n) |-> LET d == x[(k + 1) \div 2] IN IF k % 2 = 1 THEN (d * d) % Bs ELSE (d * d) \div Bs]
      t0  == BasicSqrT(Zeros(2 * n), x, 1)
      dbl == MulAddVWW(SubSeq(t0, 2, 2 * n - 1), 2, 0)
      t1  == <<t0[1]>> \o dbl[1] \o <<dbl[2]>>
  IN AddVV(zsq, t1, 0)[1]

RECURSIVE KaratsubaSqr(_, _, _)
KaratsubaSqr(z, o, x) ==
  LET n == Len(x)
  IN IF n % 2 # 0 \/ n < KarSqrThr \/ n < 2 THEN Splice(z, o, BasicSqr(x))
     ELSE LET n2 == n \div 2
              x1 == SubSeq(x, n2 + 1, n)   x0 == SubSeq(x, 1, n2)
              za == KaratsubaSqr(z, o, x0)
              zb == KaratsubaSqr(za, o + n, x1)
              xd == AbsDiff(x1, x0)
              zc == Splice(zb, o + 2 * n, xd.w)
              zd == KaratsubaSqr(zc, o + 3 * n, xd.w)
              r  == SubSeq(zd, o + 1, o + 2 * n)
              ze == Splice(zd, o + 4 * n, r)
              zf == KarAdd(ze, o + n2, r, n)
              zg == KarAdd(zf, o + n2, SubSeq(r, n + 1, 2 * n), n)
          IN KarSub(zg, o + n2, SubSeq(zg, o + 3 * n + 1, o + 4 * n), n)

RECURSIVE Sqr(_)
Sqr(x) ==
  LET n == Len(x)
  IN IF n = 0 THEN <<>>
     ELSE IF n = 1 THEN NormW(<<(x[1] * x[1]) % Bs, (x[1] * x[1]) \div Bs>>)
     ELSE IF n < BasicSqrThr THEN NormW(BasicMul(x, x))
     ELSE IF n < KarSqrThr THEN NormW(BasicSqr(x))
     ELSE LET k  == KarLen(n, KarSqrThr)
              x0 == SubSeq(x, 1, k)
              zk == KaratsubaSqr(Zeros(MaxI(6 * k, 2 * n)), 0, x0)
              z0 == ClearFrom(SubSeq(zk, 1, 2 * n), 2 * k)
          IN IF k < n
             THEN LET x1 == SubSeq(x, k + 1, n)
                      t  == Mul(NormW(x0), x1)
                      za == AddAt(z0, t, k)
                      zb == IF za = OutOfRange THEN za ELSE AddAt(za, t, k)
                      zc == IF zb = OutOfRange THEN zb ELSE AddAt(zb, Sqr(x1), 2 * k)
                  IN IF zc = OutOfRange THEN zc ELSE NormW(zc)
             ELSE NormW(z0)

(* shl10VU_g / shr10VU_g: shift a vector by s decimal digits, s < dw = digits per word (Bs = 10^dw); <<z, carry>> *)
RECURSIVE PowTen(_)
PowTen(k) == IF k = 0 THEN 1 ELSE 10 * PowTen(k - 1)
ShlVU(x, s, dw) ==
  IF s = 0 \/ Len(x) = 0 THEN <<x, 0>>
  ELSE LET d == PowTen(dw - s)  m == PowTen(s)
       IN <<[i \in 1..Len(x) |-> (x[i] % d) * m + (IF i = 1 THEN 0 ELSE x[i - 1] \div d)], x[Len(x)] \div d>>
ShrVU(x, s, dw) ==
  IF s = 0 \/ Len(x) = 0 THEN <<x, 0>>
  ELSE LET d == PowTen(s)  m == PowTen(dw - s)
       IN <<[i \in 1..Len(x) |-> x[i] \div d + (IF i = Len(x) THEN 0 ELSE (x[i + 1] % d) * m)], (x[1] % d) * m>>

MulCorrect(x, y) == LET r == Mul(x, y) IN WordsOK(r) /\ r = NormW(r) /\ ValW(r) = ValW(x) * ValW(y)
SqrCorrect(x) == LET r == Sqr(x) IN WordsOK(r) /\ r = NormW(r) /\ ValW(r) = ValW(x) * ValW(x)

(***************************************************************************)
(* Recursive division (dec.go: divRecursive, divRecursiveStep; Burnikel-   *)
(* Ziegler).  The code works in place on slices of u; here every step      *)
(* returns [z, u, bad] with z and u of the lengths it was given.  dec.cmp  *)
(* compares lengths first - CmpW does the same, also for the operands the  *)
(* code passes without normalising them.  tv is the set of recursion       *)
(* depths whose quotient buffer exists already (temps[depth] # nil): a     *)
(* new one has Len(v) words, a reused one n/2 + 1.                          *)
(***************************************************************************)
RECURSIVE CmpTop(_, _, _)
CmpTop(x, y, k) == IF k = 0 THEN 0 ELSE IF x[k] # y[k] THEN (IF x[k] < y[k] THEN -1 ELSE 1) ELSE CmpTop(x, y, k - 1)
CmpW(x, y) == IF Len(x) # Len(y) THEN (IF Len(x) < Len(y) THEN -1 ELSE 1) ELSE CmpTop(x, y, Len(x))

(* one "q̂ was too large" correction: q̂--, q̂v -= v_l, u += v_h << s   (a = [qhat, qhatv, uu, bad]) *)
AdjStep(a, v, s) ==
  LET lq  == Len(a.qhatv)
      qvp == a.qhatv \o Zeros(MaxI(0, s - lq))               \* qhatv[:s] reaches into the cleared storage behind the slice
      sb  == SubVV(SubSeq(qvp, 1, s), SubSeq(v, 1, s), 0)
      qv1 == Splice(qvp, 0, sb[1])
      qv2 == IF lq > s THEN Splice(qv1, s, SubVW(SubSeq(qv1, s + 1, lq), sb[2])[1]) ELSE qv1
      up  == AddAt(SubSeq(a.uu, s + 1, Len(a.uu)), SubSeq(v, s + 1, Len(v)), 0)
  IN IF up = OutOfRange THEN [a EXCEPT !.bad = TRUE]
     ELSE [qhat |-> SubVW(a.qhat, 1)[1], qhatv |-> SubSeq(qv2, 1, lq), uu |-> Splice(a.uu, s, up), bad |-> a.bad]
Adj2(a, v, s) ==
  IF CmpW(a.qhatv, NormW(a.uu)) <= 0 THEN a
  ELSE LET a1 == AdjStep(a, v, s)
       IN IF a1.bad \/ CmpW(a1.qhatv, NormW(a1.uu)) <= 0 THEN a1 ELSE AdjStep(a1, v, s)

RECURSIVE DivRecStep(_, _, _, _, _)
(* one block of the `for j > B` loop: st = [z, u, bad, tv] *)
DivRecBlock(st, v, j, B, depth, lq) ==
  LET n   == Len(v)  s == B - 1
      u   == st.u
      o   == j - B                                           \* uu = u[j-B:]
      uu  == SubSeq(u, o + 1, Len(u))
      sub == DivRecStep(Zeros(lq), SubSeq(uu, s + 1, B + n), SubSeq(v, s + 1, n), depth + 1, st.tv)
      a0  == [qhat |-> NormW(sub.z), qhatv |-> Mul(NormW(sub.z), SubSeq(v, 1, s)), uu |-> Splice(uu, s, sub.u), bad |-> FALSE]
      a   == Adj2(a0, v, s)
      imp == CmpW(a.qhatv, NormW(a.uu)) > 0                  \* panic("impossible")
      lv  == Len(a.qhatv)
      sb  == SubVV(SubSeq(a.uu, 1, lv), a.qhatv, 0)
      u1  == Splice(a.uu, 0, sb[1])
      u2  == IF sb[2] > 0 THEN Splice(u1, lv, SubVW(SubSeq(u1, lv + 1, Len(u1)), sb[2])[1]) ELSE u1
      z1  == AddAt(st.z, a.qhat, j - B)
      bad == st.bad \/ sub.bad \/ a.bad \/ imp \/ lv > Len(a.uu) \/ z1 = OutOfRange \/ B + n > Len(uu)
  IN [z |-> IF z1 = OutOfRange THEN st.z ELSE z1, u |-> IF bad THEN u ELSE Splice(u, o, u2), bad |-> bad, tv |-> sub.tv]

RECURSIVE DivRecBlocks(_, _, _, _, _, _)
DivRecBlocks(st, v, j, B, depth, lq) ==
  IF j <= B \/ st.bad THEN st ELSE DivRecBlocks(DivRecBlock(st, v, j, B, depth, lq), v, j - B, B, depth, lq)

(* the lowest block *)
DivRecLast(st, v, B, depth, lq) ==
  LET n   == Len(v)  s == IF LowBlockAtB THEN B ELSE B - 1
      u   == st.u
      us  == NormW(SubSeq(u, s + 1, Len(u)))
      sub == DivRecStep(Zeros(lq), us, SubSeq(v, s + 1, n), depth + 1, st.tv)
      a0  == [qhat |-> NormW(sub.z), qhatv |-> Mul(NormW(sub.z), SubSeq(v, 1, s)), uu |-> Splice(u, s, sub.u), bad |-> FALSE]
      a   == Adj2(a0, v, s)
      imp == CmpW(a.qhatv, NormW(a.uu)) > 0
      lv  == Len(a.qhatv)
      sb  == SubVV(SubSeq(a.uu, 1, lv), a.qhatv, 0)
      u1  == Splice(a.uu, 0, sb[1])
      sw  == IF sb[2] > 0 THEN SubVW(SubSeq(u1, lv + 1, Len(u1)), sb[2]) ELSE <<SubSeq(u1, lv + 1, Len(u1)), 0>>
      z1  == AddAt(st.z, NormW(a.qhat), 0)
      bad == st.bad \/ sub.bad \/ a.bad \/ imp \/ lv > Len(a.uu) \/ sw[2] > 0 \/ z1 = OutOfRange
  IN [z |-> IF z1 = OutOfRange THEN st.z ELSE z1, u |-> IF bad THEN u ELSE Splice(u1, lv, sw[1]), bad |-> bad, tv |-> sub.tv]

DivRecStep(zIn, uIn, vIn, depth, tv) ==
  LET u == NormW(uIn)  v == NormW(vIn)  n == Len(v)  m == Len(u) - n
      pad(w) == w \o Zeros(Len(uIn) - Len(w))                \* the words norm() cut off are zero and stay so
  IN IF Len(u) = 0 THEN [z |-> Zeros(Len(zIn)), u |-> uIn, bad |-> FALSE, tv |-> tv]
     ELSE IF n < DivRecThr
     THEN LET st == DivBasicLoop([u |-> u, q |-> zIn, bad |-> n < 2], v, m, m)
          IN [z |-> st.q, u |-> pad(st.u), bad |-> st.bad, tv |-> tv]
     ELSE IF m < 0 THEN [z |-> zIn, u |-> uIn, bad |-> FALSE, tv |-> tv]
     ELSE LET B   == n \div 2
              lq  == IF depth \in tv THEN B + 1 ELSE n
              st0 == [z |-> zIn, u |-> u, bad |-> FALSE, tv |-> tv \cup {depth}]
              \* the blocks j = m, m-B, ... while j > B, then the lowest one
              st1 == DivRecBlocks(st0, v, m, B, depth, lq)
              fin == IF st1.bad THEN st1 ELSE DivRecLast(st1, v, B, depth, lq)
          IN [z |-> fin.z, u |-> pad(fin.u), bad |-> fin.bad, tv |-> fin.tv]

(* divRecursive: z.clear(), then the step at depth 0 *)
DivRecursive(q, u, v) == LET r == DivRecStep(Zeros(Len(q)), u, v, 0, {}) IN [u |-> r.u, q |-> r.z, bad |-> r.bad]

(* divLarge: normalise, divBasic or divRecursive, un-normalise.  len(v) >= 2, u >= v.  Returns [q, r, bad] *)
DivLarge(uIn, vIn) ==
  LET n == Len(vIn)  m == Len(uIn)
      d == Bs \div (vIn[n] + 1)
      v == MulAddVWW(vIn, d, 0)[1]
      ut == MulAddVWW(uIn, d, 0)
      u == ut[1] \o <<ut[2]>>
      q0 == Zeros(m - n + 1)
      st == IF n < DivRecThr THEN DivBasicLoop([u |-> u, q |-> q0, bad |-> FALSE], v, m + 1 - n, m + 1 - n)
            ELSE DivRecursive(q0, u, v)
      r == DivVW(SubSeq(st.u, 1, n), d, 0)
  IN [q |-> NormW(st.q), r |-> NormW(r[1]), bad |-> st.bad \/ r[2] # 0 \/ ~WordsOK(SubSeq(st.u, 1, n)) \/ ValW(SubSeq(st.u, n + 1, Len(st.u))) # 0]

(* dec.div *)
Div(u, v) ==
  IF ValW(u) < ValW(v) THEN [q |-> <<>>, r |-> NormW(u), bad |-> FALSE]
  ELSE IF Len(v) = 1 THEN LET t == DivVW(u, v[1], 0) IN [q |-> NormW(t[1]), r |-> NormW(<<t[2]>>), bad |-> FALSE]
  ELSE DivLarge(u, v)

DivCorrect(u, v) ==
  LET d == Div(u, v)
  IN /\ ~d.bad
     /\ WordsOK(d.q) /\ WordsOK(d.r)
     /\ ValW(u) = ValW(d.q) * ValW(v) + ValW(d.r)
     /\ ValW(d.r) < ValW(v)
=============================================================================
