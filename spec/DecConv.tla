------------------------------- MODULE DecConv -------------------------------
(***************************************************************************)
(* Conversions (properties C14 and C15): big integers and rationals in and *)
(* out, machine integers out, binary floating point in and out.            *)
(*                                                                         *)
(* A binary float is [k, neg, m, q]: k in {"zero","inf","nan","fin"},      *)
(* value (-1)^neg * m * 2^q for "fin" (the harness decomposes float64 /    *)
(* float32 / *big.Float exactly with math.Float64bits / MantExp).          *)
(***************************************************************************)
EXTENDS DecSqrt

IAbs2(i) == IMk(FALSE, i.mag)

(* |x| as a fraction A/B for a finite Decimal *)
FracA(x) == IF ~CoefExp(x).neg THEN Shl(x.dig, IToInt(CoefExp(x))) ELSE x.dig
FracB(x) == IF ~CoefExp(x).neg THEN One ELSE Pow10(IToInt(IAbs2(CoefExp(x))))

(* integer part of |x| and whether x is an integer (finite x) *)
TruncMag(x) ==
  LET k == Len(x.dig)
  IN IF ILe(x.exp, IZero) THEN Zero                                  \* |x| < 1
     ELSE IF IGe(x.exp, IFromInt(k)) THEN Shl(x.dig, IToInt(ISub(x.exp, IFromInt(k))))
     ELSE Shr(x.dig, k - IToInt(x.exp))
IsInteger(x) == x.form = "zero" \/ (x.form = "finite" /\ IGe(x.exp, IFromInt(Len(x.dig))))

(***************************************************************************)
(* SetInt / SetRat (C14; accuracy C02; precision rule C09)                 *)
(***************************************************************************)
(* neg, N: the big.Int.  A precision-0 receiver gets max(34, digits): the documentation    *)
(* says "max(z.MinPrec(), DefaultDecimalPrec)", the code counts all digits of N: both are  *)
(* accepted (pobs is the precision read back); the value must then be exact.               *)
SetIntPrecOK(N, pobs) == pobs \in {MaxI(DefaultPrec, Len(N)), MaxI(DefaultPrec, Len(N) - TrailingZeros(N))}

OpSetInt(z, neg, N, pobs) ==
  LET p == IF z.prec # 0 THEN z.prec ELSE IF N = Zero THEN DefaultPrec ELSE pobs
  IN IF N = Zero THEN Ok(Special("zero", FALSE), p, z.mode, {"C14"})
     ELSE OkFree(RoundTo(neg, N, One, IZero, IF p = 0 THEN 1 ELSE p, z.mode), p, z.mode, {"C14"},
                 IF z.prec = 0 THEN {"prec"} ELSE {})

(* x = (-1)^neg N/D in lowest terms, D > 1 for a non-integer *)
OpSetRat(z, neg, N, D, pobs) ==
  IF D = One THEN OpSetInt(z, neg, N, pobs)
  ELSE LET p == IF z.prec # 0 THEN z.prec ELSE pobs
       IN OkFree(RoundTo(neg, N, D, IZero, IF p = 0 THEN 1 ELSE p, z.mode), p, z.mode, {"C14"},
                 IF z.prec = 0 THEN {"prec"} ELSE {})

(***************************************************************************)
(* Int64 / Uint64 / Int / Rat (C14).  Results are [v (BigInt), acc].       *)
(***************************************************************************)
AccTrunc(x) == IF IsInteger(x) THEN Exact ELSE IF x.neg THEN Above ELSE Below    \* sign(trunc(x) - x)

(* bits = 64 for the library; smaller in bounded models *)
OpInt64(x, bits) ==
  LET lim == Pow(Two, bits - 1)                                       \* 2^63
      maxv == [v |-> IMk(FALSE, Sub(lim, One)), acc |-> Below]
      minv == [v |-> IMk(TRUE, lim), acc |-> Above]
  IN CASE x.form = "zero" -> [v |-> IZero, acc |-> Exact]
       [] x.form = "inf"  -> IF x.neg THEN minv ELSE maxv
       [] OTHER ->
            LET t == TruncMag(x)
            IN IF x.neg THEN (IF Le(t, lim) THEN [v |-> IMk(TRUE, t), acc |-> AccTrunc(x)] ELSE minv)
               ELSE (IF Lt(t, lim) THEN [v |-> IMk(FALSE, t), acc |-> AccTrunc(x)] ELSE maxv)

OpUint64(x, bits) ==
  LET lim == Pow(Two, bits)
      maxv == [v |-> IMk(FALSE, Sub(lim, One)), acc |-> Below]
  IN CASE x.form = "zero" -> [v |-> IZero, acc |-> Exact]
       [] x.form = "inf"  -> IF x.neg THEN [v |-> IZero, acc |-> Above] ELSE maxv
       [] x.neg -> [v |-> IZero, acc |-> Above]                        \* 0 > x
       [] OTHER -> LET t == TruncMag(x)
                   IN IF Lt(t, lim) THEN [v |-> IMk(FALSE, t), acc |-> AccTrunc(x)] ELSE maxv

(* Int: [nil, v, acc] *)
OpInt(x) ==
  CASE x.form = "zero" -> [nil |-> FALSE, v |-> IZero, acc |-> Exact]
    [] x.form = "inf"  -> [nil |-> TRUE, v |-> IZero, acc |-> IF x.neg THEN Above ELSE Below]
    [] OTHER -> [nil |-> FALSE, v |-> IMk(x.neg, TruncMag(x)), acc |-> AccTrunc(x)]

(* Rat: is (-1)^rneg num/den exactly x ?  (cross-multiplication; den > 0) *)
RatDenotes(x, rneg, num, den) ==
  IF x.form = "zero" THEN num = Zero
  ELSE /\ num # Zero /\ rneg = x.neg
       /\ Mul(num, FracB(x)) = Mul(FracA(x), den)

(***************************************************************************)
(* Binary floating point (C15).                                            *)
(* A/B is the exact magnitude, format = [P, qmin, qmax] (mantissa bits,    *)
(* least and largest exponent of the last mantissa bit).                   *)
(***************************************************************************)
F64 == [P |-> 53, qmin |-> -1074, qmax |-> 971]
F32 == [P |-> 24, qmin |-> -149, qmax |-> 104]

Pow2(n) == Pow(Two, n)

(* compare  S * 2^q  with  T * A/B   (S, T, A, B BigNat, q TLC integer) *)
CmpBin(S, q, T, A, B) ==
  IF q >= 0 THEN Cmp(Mul(Mul(S, Pow2(q)), B), Mul(T, A))
  ELSE Cmp(Mul(S, B), Mul(Mul(T, A), Pow2(-q)))

(* sum of two binary grid points m1*2^q1 + m2*2^q2 as [S, q] *)
BinSum(m1, q1, m2, q2) ==
  LET q == IF q1 < q2 THEN q1 ELSE q2
  IN [S |-> Add(Mul(m1, Pow2(q1 - q)), Mul(m2, Pow2(q2 - q))), q |-> q]

(* neighbours of the finite float [m, q] in the format *)
BSucc(F, m, q) == IF Lt(Add(m, One), Pow2(F.P)) THEN [m |-> Add(m, One), q |-> q] ELSE [m |-> Pow2(F.P - 1), q |-> q + 1]
BPred(F, m, q) == IF q = F.qmin \/ Gt(m, Pow2(F.P - 1)) THEN [m |-> Sub(m, One), q |-> q] ELSE [m |-> Sub(Pow2(F.P), One), q |-> q - 1]

WellFormedBin(F, f) ==
  f.k = "fin" => /\ f.m # Zero /\ Lt(f.m, Pow2(F.P)) /\ f.q >= F.qmin /\ f.q <= F.qmax
                 /\ (Ge(f.m, Pow2(F.P - 1)) \/ f.q = F.qmin)

(* Is f the float nearest to A/B > 0 (ties to even), with saturation?  declarative, cross-multiplied *)
NearestOK(A, B, F, f) ==
  LET least == [m |-> One, q |-> F.qmin]
      maxf  == [m |-> Sub(Pow2(F.P), One), q |-> F.qmax]
      over  == [m |-> Pow2(F.P - 1), q |-> F.qmax + 1]
  IN CASE f.k = "zero" -> CmpBin(least.m, least.q, Two, A, B) >= 0                 \* 2X <= least  (tie goes to 0, even)
       [] f.k = "inf"  -> LET s == BinSum(maxf.m, maxf.q, over.m, over.q) IN CmpBin(s.S, s.q, Two, A, B) <= 0   \* 2X >= maxf + over
       [] f.k = "fin"  ->
            LET su == BSucc(F, f.m, f.q)
                pr == BPred(F, f.m, f.q)
                hi == BinSum(f.m, f.q, su.m, su.q)
                lo == BinSum(f.m, f.q, pr.m, pr.q)
                chi == CmpBin(hi.S, hi.q, Two, A, B)              \* f + Succ ? 2X
                clo == CmpBin(lo.S, lo.q, Two, A, B)              \* f + Pred ? 2X
            IN /\ WellFormedBin(F, f)
               /\ chi >= 0 /\ clo <= 0
               /\ (chi = 0 \/ clo = 0) => IsEven(f.m)
       [] OTHER -> FALSE

(* sign(f - X) for X = A/B > 0 and a non-negative float f *)
BinAcc(A, B, f) ==
  CASE f.k = "zero" -> Below
    [] f.k = "inf"  -> Above
    [] OTHER -> CmpBin(f.m, f.q, One, A, B)

(* Float64/Float32 of a Decimal x.  Values beyond 10^+-400 saturate without computing A/B. *)
(* value clause: f is the float nearest to x (x itself when representable), saturating      *)
ToBinaryValueOK(x, F, f) ==
  CASE x.form = "zero" -> f.k = "zero" /\ f.neg = x.neg
    [] x.form = "inf"  -> f.k = "inf" /\ f.neg = x.neg
    [] OTHER ->
         /\ f.neg = x.neg
         /\ IF IGt(x.exp, IFromInt(400)) THEN f.k = "inf"
            ELSE IF ILt(x.exp, IFromInt(-400)) THEN f.k = "zero"
            ELSE NearestOK(FracA(x), FracB(x), F, f)

(* accuracy clause: acc = sign(returned - x), whatever was returned *)
ToBinaryAccOK(x, f, acc) ==
  CASE x.form # "finite" -> acc = Exact
    [] OTHER ->
         LET sg == IF x.neg THEN -1 ELSE 1
         IN IF f.k = "inf" THEN acc = Above * (IF f.neg THEN -1 ELSE 1)
            ELSE IF f.k = "zero" THEN acc = Below * sg
            ELSE IF f.k # "fin" \/ f.neg # x.neg THEN FALSE
            ELSE IF IGt(x.exp, IFromInt(400)) THEN acc = Below * sg
            ELSE IF ILt(x.exp, IFromInt(-400)) THEN acc = Above * sg
            ELSE acc = BinAcc(FracA(x), FracB(x), f) * sg

(* Recorded finding D10: Float64/Float32 round twice (through a 64/32-bit big.Float).  Named, bounded class: *)
(* the returned float is ADJACENT to the nearest one and x lies within 2^(5-G) units in the last place of    *)
(* the midpoint between them (G = guard bits of the intermediate format: 11 resp. 8).                        *)
DoubleRoundingClass(x, F, f, G) ==
  /\ x.form = "finite" /\ f.neg = x.neg /\ ILe(x.exp, IFromInt(400)) /\ IGe(x.exp, IFromInt(-400))
  /\ f.k = "fin" /\ WellFormedBin(F, f)
  /\ LET A == FracA(x)  B == FracB(x)
         above == CmpBin(f.m, f.q, One, A, B) < 0                  \* f < X: the nearest is on the Succ side
         nb == IF above THEN BSucc(F, f.m, f.q) ELSE BPred(F, f.m, f.q)
         s  == BinSum(f.m, f.q, nb.m, nb.q)                        \* f + neighbour = 2 * midpoint
         bq == f.q - G + 6                                         \* |2X - (f+nb)| <= 2^bq
         K  == MaxI(MaxI(0, -s.q), -bq)
         L  == Mul(Mul(Two, A), Pow2(K))
         R  == Mul(Mul(s.S, Pow2(s.q + K)), B)
     IN /\ (IF above THEN CmpBin(nb.m, nb.q, One, A, B) > 0 ELSE CmpBin(nb.m, nb.q, One, A, B) < 0)   \* X between f and nb
        /\ Le(AbsDiff(L, R), Mul(Pow2(bq + K), B))

(***************************************************************************)
(* SetFloat64 / SetFloat: binary -> decimal.  b = [k, neg, m, q].          *)
(* The exact value m*2^q as a fraction N/D.                                *)
(***************************************************************************)
BinN(b) == IF b.q >= 0 THEN Mul(b.m, Pow2(b.q)) ELSE b.m
BinD(b) == IF b.q >= 0 THEN One ELSE Pow2(-b.q)

(* |g - r| <= n units in the last place of r (p digits), g and r finite results of the same sign *)
WithinUlps(g, r, p, n) ==
  LET qg == ISub(g.exp, IFromInt(Len(g.dig)))           \* g = g.dig * 10^qg
      qr == ISub(r.exp, IFromInt(Len(r.dig)))
      u  == ISub(r.exp, IFromInt(p))                     \* ulp of r = 10^u
      q  == IMin(IMin(qg, qr), u)
      a  == Shl(g.dig, IToInt(ISub(qg, q)))
      b  == Shl(r.dig, IToInt(ISub(qr, q)))
  IN /\ g.form = "finite" /\ r.form = "finite" /\ g.neg = r.neg
     /\ ISmall(ISub(g.exp, r.exp))
     /\ Le(AbsDiff(a, b), Mul(FromInt(n), Pow10(IToInt(ISub(u, q)))))

(* IEEE-754 binary64 bit pattern (a BigNat < 2^64) -> [k, neg, m, q] *)
DecodeF64(bits) ==
  LET neg  == Ge(bits, Pow2(63))
      rest == Mod(bits, Pow2(63))
      e    == ToInt(Div(rest, Pow2(52)))
      frac == Mod(rest, Pow2(52))
  IN IF e = 2047 THEN [k |-> IF frac = Zero THEN "inf" ELSE "nan", neg |-> neg, m |-> Zero, q |-> 0]
     ELSE IF e = 0 THEN (IF frac = Zero THEN [k |-> "zero", neg |-> neg, m |-> Zero, q |-> 0]
                         ELSE [k |-> "fin", neg |-> neg, m |-> frac, q |-> -1074])
     ELSE [k |-> "fin", neg |-> neg, m |-> Add(Pow2(52), frac), q |-> e - 1075]

RECURSIVE BitLen(_)
BitLen(m) == IF m = Zero THEN 0 ELSE 1 + BitLen(Div(m, Two))

(* Float(x) into a big.Float of P bits: |f - X| <= n units in the last place (2^(bitlen(f) - P)) *)
BigFloatWithin(x, f, P, n) ==
  /\ f.k = "fin" /\ f.neg = x.neg
  /\ LET A == FracA(x)  B == FracB(x)
         u == BitLen(f.m) + f.q - P                       \* ulp = 2^u
         \* |f.m*2^q - A/B| <= n*2^u   <=>   f.m*2^q - n*2^u <= A/B <= f.m*2^q + n*2^u
         lo == IF f.q <= u THEN [S |-> f.m, q |-> f.q, T |-> Mul(FromInt(n), Pow2(u - f.q))]
               ELSE [S |-> Mul(f.m, Pow2(f.q - u)), q |-> u, T |-> FromInt(n)]
     IN /\ CmpBin(Add(lo.S, lo.T), lo.q, One, A, B) >= 0
        /\ (Ge(lo.S, lo.T) => CmpBin(Sub(lo.S, lo.T), lo.q, One, A, B) <= 0)

(* SetFloat64(z, b) / SetFloat(z, b): outcome with the value check left to BinSetOK *)
OpSetBin(z, b, pdef) ==
  LET p == IF z.prec # 0 THEN z.prec ELSE pdef
  IN CASE b.k = "nan"  -> NaN(p, z.mode)
       [] b.k = "zero" -> OkFree(Special("zero", b.neg), p, z.mode, {"C15"}, {"acc"})
       [] b.k = "inf"  -> OkFree(Special("inf", b.neg), p, z.mode, {"C15"}, {"acc"})
       [] OTHER -> OkFree(RoundTo(b.neg, BinN(b), BinD(b), IZero, p, z.mode), p, z.mode, {"C15"}, {"acc", "value"})

(* the value clause of C15 for a finite b: exact when the precision can hold the expansion, else within n ulp *)
BinSetOK(z, b, g, n) ==
  LET r == RoundTo(b.neg, BinN(b), BinD(b), IZero, g.prec, g.mode)
  IN IF r.acc = Exact THEN SameValue(g, r) ELSE (r.form = "finite" /\ WithinUlps(g, r, g.prec, n))
=============================================================================
