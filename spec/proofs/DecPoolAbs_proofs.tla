------------------------- MODULE DecPoolAbs_proofs -------------------------
(***************************************************************************)
(* TLAPS proof that the safety invariant of the abstract scratch-buffer    *)
(* pool is inductive - for ANY set of goroutines and ANY set of buffers    *)
(* (TLC explores 2-3 goroutines and 6 buffers).  Checked by               *)
(*   tlapm --threads 16 DecPoolAbs_proofs.tla   (21 obligations)           *)
(* in C18's check; a failed or missing proof is an error of the machinery  *)
(* (exit 2), never a verdict about the code.                               *)
(***************************************************************************)
EXTENDS DecPoolAbs, TLAPS

THEOREM InitInv == AInit => IndInv
  BY DEF AInit, IndInv, TypeOK, OneHolder, PooledUnheld, Accounted

THEOREM StepInv == IndInv /\ [ANext]_avars => IndInv'
<1> SUFFICES ASSUME IndInv, [ANext]_avars PROVE IndInv'
  OBVIOUS
<1>1. CASE UNCHANGED avars
  BY <1>1 DEF IndInv, TypeOK, OneHolder, PooledUnheld, Accounted, avars
<1>2. ASSUME NEW g \in Gor, NEW b \in Buf, AGetPooled(g, b) PROVE IndInv'
  BY <1>2 DEF IndInv, TypeOK, OneHolder, PooledUnheld, Accounted, AGetPooled
<1>3. ASSUME NEW g \in Gor, NEW b \in Buf, AGetNew(g, b) PROVE IndInv'
  BY <1>3 DEF IndInv, TypeOK, OneHolder, PooledUnheld, Accounted, AGetNew
<1>4. ASSUME NEW g \in Gor, NEW b \in Buf, APut(g, b) PROVE IndInv'
  BY <1>4 DEF IndInv, TypeOK, OneHolder, PooledUnheld, Accounted, APut
<1> QED
  BY <1>1, <1>2, <1>3, <1>4 DEF ANext

THEOREM Safety == ASpec => []Safe
<1>1. IndInv => Safe
  BY DEF IndInv, Safe
<1> QED
  BY InitInv, StepInv, <1>1, PTL DEF ASpec
=============================================================================
