------------------------------ MODULE DecParse ------------------------------
(***************************************************************************)
(* Text input (property C12): the literal grammar of Parse / SetString /   *)
(* UnmarshalText / Scan as a recogniser over characters, and the value a   *)
(* recognised literal denotes.                                             *)
(*                                                                         *)
(*   number   = [sign] ( "Inf" | "inf" | mantissa [exponent] )             *)
(*   base 0:  "0b" "0o" "0x" prefixes select base 2, 8, 16 (not counted as *)
(*            digits); "_" may separate digits (and follow a prefix); an   *)
(*            illegal "_" is an error only if nothing else is wrong        *)
(*   digits < base (letters case-insensitive); at most one "."             *)
(*   exponent = ("e"|"E") decimal | ("p"|"P") binary, [sign] digits,       *)
(*            must fit int64; "e" is a digit in base 16                    *)
(*   the whole string must be consumed                                     *)
(***************************************************************************)
EXTENDS DecText

Code(c) == CharCode(c)
DigitVal(c) == LET k == Code(c)
               IN IF k >= 48 /\ k <= 57 THEN k - 48
                  ELSE IF k >= 97 /\ k <= 122 THEN k - 87
                  ELSE IF k >= 65 /\ k <= 90 THEN k - 55
                  ELSE 99

(* mantissa loop, like dec.scan: st = [M, count, dp, fracOk, invalSep, prev, next] *)
RECURSIVE MantLoop(_, _, _, _, _)
MantLoop(cs, i, b, sepOk, st) ==
  IF i > Len(cs) THEN [st EXCEPT !.next = i]
  ELSE LET c == cs[i]
       IN IF c = "." /\ st.fracOk
          THEN MantLoop(cs, i + 1, b, sepOk, [st EXCEPT !.fracOk = FALSE, !.invalSep = st.invalSep \/ st.prev = "_", !.prev = ".", !.dp = st.count])
          ELSE IF c = "_" /\ sepOk
          THEN MantLoop(cs, i + 1, b, sepOk, [st EXCEPT !.invalSep = st.invalSep \/ st.prev # "0", !.prev = "_"])
          ELSE IF DigitVal(c) < b
          THEN MantLoop(cs, i + 1, b, sepOk, [st EXCEPT !.prev = "0", !.count = st.count + 1,
                                                       !.M = Add(Mul(st.M, FromInt(b)), FromInt(DigitVal(c)))])
          ELSE [st EXCEPT !.next = i]

(* exponent digits loop: st = [E (BigNat), has, invalSep, prev, next] *)
RECURSIVE ExpLoop(_, _, _, _)
ExpLoop(cs, i, sepOk, st) ==
  IF i > Len(cs) THEN [st EXCEPT !.next = i]
  ELSE LET c == cs[i]
       IN IF Code(c) >= 48 /\ Code(c) <= 57
          THEN ExpLoop(cs, i + 1, sepOk, [st EXCEPT !.E = Add(Mul(st.E, Ten), FromInt(Code(c) - 48)), !.has = TRUE, !.prev = "0"])
          ELSE IF c = "_" /\ sepOk
          THEN ExpLoop(cs, i + 1, sepOk, [st EXCEPT !.invalSep = st.invalSep \/ st.prev # "0", !.prev = "_"])
          ELSE [st EXCEPT !.next = i]

Int64Max == FromStr("9223372036854775807")
Int64MinMag == FromStr("9223372036854775808")

Reject == [ok |-> FALSE]

(* The recogniser.  Result: Reject, or                                                  *)
(* [ok, inf, neg, base, M, fdigits (number of digits after the point), ebase, exp]       *)
ParseLitX(cs, baseArg, full) ==
  LET n == Len(cs)
  IN IF full /\ n = 3 /\ cs \in {<<"I","n","f">>, <<"i","n","f">>} THEN [ok |-> TRUE, inf |-> TRUE, neg |-> FALSE, base |-> 0]
     ELSE IF full /\ n = 4 /\ cs[1] \in {"+", "-"} /\ SubSeq(cs, 2, 4) \in {<<"I","n","f">>, <<"i","n","f">>}
     THEN [ok |-> TRUE, inf |-> TRUE, neg |-> cs[1] = "-", base |-> 0]
     ELSE IF n = 0 THEN Reject
     ELSE
       LET hasSign == cs[1] \in {"+", "-"}
           neg == cs[1] = "-"
           i0  == IF hasSign THEN 2 ELSE 1
           \* base detection (base argument 0 only): a leading 0 followed by b/B/o/O/x/X
           lead0 == baseArg = 0 /\ i0 <= n /\ cs[i0] = "0"
           pfx == IF lead0 /\ i0 + 1 <= n
                  THEN (CASE cs[i0 + 1] \in {"b", "B"} -> 2 [] cs[i0 + 1] \in {"o", "O"} -> 8 [] cs[i0 + 1] \in {"x", "X"} -> 16 [] OTHER -> 0)
                  ELSE 0
           b   == IF baseArg # 0 THEN baseArg ELSE IF pfx # 0 THEN pfx ELSE 10
           st0 == [M |-> Zero, count |-> IF lead0 /\ pfx = 0 THEN 1 ELSE 0, dp |-> -1, fracOk |-> TRUE, invalSep |-> FALSE,
                   prev |-> IF lead0 THEN "0" ELSE ".", next |-> 0]
           i1  == IF lead0 THEN (IF pfx # 0 THEN i0 + 2 ELSE i0 + 1) ELSE i0
           ms  == MantLoop(cs, i1, b, baseArg = 0, st0)
           mantBad == ms.count = 0 \/ ms.invalSep \/ ms.prev = "_"
           fdigits == IF ms.dp >= 0 THEN ms.count - ms.dp ELSE 0
           j   == ms.next
           \* exponent
           hasExp == j <= n /\ cs[j] \in {"e", "E", "p", "P"}
           ebase == IF hasExp /\ cs[j] \in {"p", "P"} THEN 2 ELSE 10
           k0  == j + 1
           esign == hasExp /\ k0 <= n /\ cs[k0] \in {"+", "-"}
           eneg == esign /\ cs[k0] = "-"
           k1  == IF esign THEN k0 + 1 ELSE k0
           es  == IF hasExp THEN ExpLoop(cs, k1, baseArg = 0, [E |-> Zero, has |-> FALSE, invalSep |-> FALSE, prev |-> ".", next |-> 0])
                  ELSE [E |-> Zero, has |-> TRUE, invalSep |-> FALSE, prev |-> ".", next |-> j]
           expBad == hasExp /\ (~es.has \/ es.invalSep \/ es.prev = "_"
                                \/ (IF eneg THEN Gt(es.E, Int64MinMag) ELSE Gt(es.E, Int64Max)))
           endBad == full /\ es.next <= n                         \* trailing characters (Parse); Scan stops at the first foreign character
           \* ... unless that character is not ASCII: Scan reads bytes through a rune reader and a multi-byte rune is an
           \* "invalid rune" error, not the end of the number (math/big's Float.Scan does the same)
           runeBad == ~full /\ es.next <= n /\ Code(cs[es.next]) >= 128
       IN IF i0 > n \/ mantBad \/ expBad \/ endBad \/ runeBad THEN Reject
          ELSE [ok |-> TRUE, inf |-> FALSE, neg |-> neg, base |-> b, M |-> ms.M, fdigits |-> fdigits,
                ebase |-> ebase, exp |-> IMk(eneg, es.E)]

ParseLit(cs, baseArg) == ParseLitX(cs, baseArg, TRUE)
ScanLit(cs) == ParseLitX(cs, 0, FALSE)

(***************************************************************************)
(* The value of an accepted finite literal:                                *)
(*    M * b^(-fdigits) * ebase^exp  =  N/D * 10^e10  with the powers of    *)
(*    two in N or D.  k2: the binary exponent, k10: the decimal one.       *)
(***************************************************************************)
LitK2(l) == IAdd(IF l.base = 10 THEN IZero
                 ELSE IFromInt(-(l.fdigits * (CASE l.base = 2 -> 1 [] l.base = 8 -> 3 [] OTHER -> 4))),
                 IF l.ebase = 2 THEN l.exp ELSE IZero)
LitK10(l) == IAdd(IF l.base = 10 THEN IFromInt(-l.fdigits) ELSE IZero, IF l.ebase = 10 THEN l.exp ELSE IZero)
IsDecimalLit(l) == LitK2(l) = IZero

(* the decimal exponent the implementation range-checks: digits(M) + k10 must be an int32 *)
LitExp10(l) == IAddInt(LitK10(l), Len(l.M))
LitRangeError(l) == l.M # Zero /\ (ILt(LitExp10(l), MinExp) \/ IGt(LitExp10(l), MaxExp))

(* z.Parse(literal): outcome record as in DecOps.  ok = FALSE means "rejected with an error".  *)
(* For a decimal literal: exact value rounded once, truthful accuracy.  With a binary exponent *)
(* the value check is ParseBinOK below.                                                        *)
OpParse(z, l) ==
  LET p == IF z.prec # 0 THEN z.prec ELSE DefaultPrec
  IN IF l.inf THEN OkFree(Special("inf", l.neg), z.prec, z.mode, {"C12"}, {"prec"})          \* precision 0 stays 0 or becomes 34: both accepted
     ELSE IF l.M = Zero THEN Ok(Special("zero", l.neg), p, z.mode, {"C12"})
     ELSE IF IsDecimalLit(l) THEN Ok(RoundTo(l.neg, l.M, One, LitK10(l), p, z.mode), p, z.mode, {"C12"})
     ELSE OkFree(Special("zero", l.neg), p, z.mode, {"C12"}, {"value", "acc"})

(* binary exponent |k2| <= 300000 (the trace specification leaves larger ones free): N/D exact *)
BinLitN(l) == IF LitK2(l).neg THEN l.M ELSE Mul(l.M, Pow2(IToInt(LitK2(l))))
BinLitD(l) == IF LitK2(l).neg THEN Pow2(IToInt(IAbs2(LitK2(l)))) ELSE One
(* stored exactly when representable, otherwise within one unit in the last place *)
ParseBinOK(l, g) ==
  LET r == RoundTo(l.neg, BinLitN(l), BinLitD(l), LitK10(l), g.prec, g.mode)
  IN IF r.acc = Exact /\ r.form = "finite" THEN SameValue(g, r)
     ELSE r.form = "finite" /\ g.form = "finite" /\ WithinUlps(g, r, g.prec, 1)
=============================================================================
