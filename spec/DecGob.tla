------------------------------- MODULE DecGob -------------------------------
(***************************************************************************)
(* Gob encoding (property C17).  A payload is a sequence of bytes 0..255:  *)
(*   [1] version = 1                                                       *)
(*   [2] mode<<5 | (acc+1)<<3 | form<<1 | neg      (form: 0 zero, 1 finite, 2 inf) *)
(*   [3..6] precision, big endian                                          *)
(*   finite only: [7..10] exponent (two's complement int32), then the      *)
(*   mantissa words, most significant first, WS bytes each, big endian.    *)
(* Parameterised by the word size (WS bytes, DWg digits) so that bounded   *)
(* models can use one-byte words.                                          *)
(***************************************************************************)
EXTENDS DecConv

CONSTANTS WS, DWg

RECURSIVE BytesToNat(_)
BytesToNat(bs) == IF Len(bs) = 0 THEN Zero            \* big endian
                  ELSE Add(Mul(BytesToNat(SubSeq(bs, 1, Len(bs) - 1)), FromInt(256)), FromInt(bs[Len(bs)]))

RECURSIVE NatToBytes(_, _)
NatToBytes(a, n) == IF n = 0 THEN <<>>                 \* n bytes, big endian
                    ELSE NatToBytes(Div(a, FromInt(256)), n - 1) \o <<ToInt(Mod(a, FromInt(256)))>>

U32(bs) == BytesToNat(bs)
(* the precision field.  TLC integers are 32-bit: every precision at or above MaxPrec (2^30 in the trace *)
(* specification, where observations use the same sentinel) is the one value MaxPrec                     *)
PrecField(bs) == LET u == U32(bs) IN IF Lt(u, FromInt(MaxPrec)) THEN ToInt(u) ELSE MaxPrec
(* two's complement int32 -> BigInt *)
I32(bs) == LET u == BytesToNat(bs) IN IF Lt(u, Pow2(31)) THEN IMk(FALSE, u) ELSE IMk(TRUE, Sub(Pow2(32), u))

(* words of the payload, least significant first *)
WordsOf(bs) == [i \in 1..(Len(bs) \div WS) |-> BytesToNat(SubSeq(bs, Len(bs) - i * WS + 1, Len(bs) - (i - 1) * WS))]

Flags(bs) == [mode |-> bs[2] \div 32, accp |-> (bs[2] \div 8) % 4, form |-> (bs[2] \div 2) % 4, neg |-> bs[2] % 2 = 1]

(* Is the payload the image of a canonical Decimal?  (what a decoder may rely on; anything else is "corrupted") *)
WellFormedGob(bs) ==
  /\ Len(bs) >= 6 /\ bs[1] = 1
  /\ LET f == Flags(bs) IN
       /\ f.mode <= 5 /\ f.accp <= 2 /\ f.form <= 2
       /\ f.form # 1 => Len(bs) = 6
       /\ f.form = 1 =>
            /\ Len(bs) >= 10 + WS /\ (Len(bs) - 10) % WS = 0
            /\ LET ws == WordsOf(SubSeq(bs, 11, Len(bs)))
                   N  == ConcatWords(ws, DWg)
                   p  == PrecField(SubSeq(bs, 3, 6))
               IN /\ \A i \in 1..Len(ws) : Lt(ws[i], Pow10(DWg))
                  /\ Len(ws[Len(ws)]) = DWg                          \* normalised
                  /\ p >= 1 /\ Len(N) - TrailingZeros(N) <= p
                  /\ Len(ws) <= (p + DWg - 1) \div DWg                \* no more words than the precision needs

(* the Decimal a well-formed payload denotes (all attributes) *)
DecodeGob(bs) ==
  LET f == Flags(bs)
      p == PrecField(SubSeq(bs, 3, 6))
  IN IF f.form = 1
     THEN LET ws == WordsOf(SubSeq(bs, 11, Len(bs)))
              N  == ConcatWords(ws, DWg)
          IN MkDec("finite", f.neg, StripTZ(N), I32(SubSeq(bs, 7, 10)), p, f.mode, f.accp - 1)
     ELSE MkDec(IF f.form = 0 THEN "zero" ELSE "inf", f.neg, Zero, IZero, p, f.mode, f.accp - 1)

(* z.GobDecode(bs) for a well-formed payload: everything is taken from the payload when z.prec = 0, *)
(* otherwise z keeps its precision and mode and the value is rounded to them (accuracy: of that rounding) *)
OpGobDecode(z, bs) ==
  IF Len(bs) = 0 THEN Outcome("ok", ZeroValue, {}, {"C17"})                  \* the other side sent a nil / zero value
  ELSE LET d == DecodeGob(bs)
       IN IF z.prec = 0 THEN Outcome("ok", d, {}, {"C17"})
          ELSE Ok(SetLike(d.neg, d, z.prec, z.mode), z.prec, z.mode, {"C17"})

(* one possible encoding of a canonical d (the one with the fewest words) - used by bounded models *)
EncodeGob(d) ==
  LET flags == d.mode * 32 + (d.acc + 1) * 8 + (CASE d.form = "zero" -> 0 [] d.form = "finite" -> 1 [] OTHER -> 2) * 2 + (IF d.neg THEN 1 ELSE 0)
      head  == <<1, flags>> \o NatToBytes(FromInt(d.prec), 4)
  IN IF d.form # "finite" THEN head
     ELSE LET nw == (Len(d.dig) + DWg - 1) \div DWg
              N  == Shl(d.dig, nw * DWg - Len(d.dig))
              e  == IF d.exp.neg THEN Sub(Pow2(32), d.exp.mag) ELSE d.exp.mag
          IN head \o NatToBytes(e, 4) \o NatToBytes(BytesToNat(<<>>), 0) \o
             [i \in 1..(nw * WS) |-> NatToBytes(SplitWords(N, DWg, nw)[nw - ((i - 1) \div WS)], WS)[1 + ((i - 1) % WS)]]
=============================================================================
