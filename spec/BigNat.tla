------------------------------- MODULE BigNat -------------------------------
(***************************************************************************)
(* Arbitrary-precision natural numbers for TLC.                            *)
(*                                                                         *)
(* TLC integers are 32-bit, and every quantity the decimal library talks   *)
(* about (a 19-digit word, a 20 000-digit mantissa, the sum of two int32   *)
(* exponents) is wider.  A BigNat is a sequence of decimal digits,         *)
(* LITTLE-endian (a[1] is the units digit), without most-significant       *)
(* zeros; <<>> is 0.  Decimal digits - not bigger limbs - because all the  *)
(* library's properties are statements about digit positions.             *)
(*                                                                         *)
(* Every operator X has a pure TLA+ definition XDef, which IS its meaning, *)
(* and a thin wrapper X == XDef that the Java class BigNatOv overrides     *)
(* with java.math.BigInteger for speed.  mc/MC_BigNat checks X = XDef      *)
(* exhaustively on small operands and on pseudo-random wide ones.          *)
(***************************************************************************)
EXTENDS Integers, Sequences

Digit == 0..9

IsNat(a) == /\ DOMAIN a = 1..Len(a)
            /\ \A i \in 1..Len(a) : a[i] \in Digit
            /\ (Len(a) > 0 => a[Len(a)] # 0)

Zero == <<>>
One  == <<1>>
Two  == <<2>>
Ten  == <<0, 1>>

IsZero(a) == Len(a) = 0

(* strip most-significant zeros *)
RECURSIVE NormDef(_)
NormDef(a) == IF Len(a) = 0 THEN <<>>
              ELSE IF a[Len(a)] # 0 THEN a
              ELSE NormDef(SubSeq(a, 1, Len(a) - 1))
Norm(a) == NormDef(a)

(* TLC integer <-> BigNat (n >= 0) *)
RECURSIVE FromIntDef(_)
FromIntDef(n) == IF n = 0 THEN <<>> ELSE <<n % 10>> \o FromIntDef(n \div 10)
FromInt(n) == FromIntDef(n)

RECURSIVE ToIntDef(_)
ToIntDef(a) == IF Len(a) = 0 THEN 0 ELSE a[1] + 10 * ToIntDef(Tail(a))
ToInt(a) == ToIntDef(a)          \* TLC reports an overflow if a >= 2^31

NumDigits(a) == Len(a)

(* zeros(k) = <<0,...,0>> *)
Zeros(k) == [i \in 1..k |-> 0]

(* a * 10^k, floor(a / 10^k), a mod 10^k *)
Shl(a, k) == IF Len(a) = 0 THEN <<>> ELSE Zeros(k) \o a
Shr(a, k) == IF k >= Len(a) THEN <<>> ELSE SubSeq(a, k + 1, Len(a))
Low(a, k) == IF k >= Len(a) THEN a ELSE Norm(SubSeq(a, 1, k))
Pow10(k)  == Zeros(k) \o <<1>>

(* digit i (0 = units) *)
DigitAt(a, i) == IF i + 1 <= Len(a) THEN a[i + 1] ELSE 0

(* number of trailing (least-significant) zero digits; 0 for a = 0 *)
RECURSIVE TrailingZerosDef(_)
TrailingZerosDef(a) == IF Len(a) = 0 \/ a[1] # 0 THEN 0 ELSE 1 + TrailingZerosDef(Tail(a))
TrailingZeros(a) == TrailingZerosDef(a)

StripTZ(a) == Shr(a, TrailingZeros(a))

(* comparison: -1, 0, 1 *)
RECURSIVE CmpFrom(_, _, _)
CmpFrom(a, b, i) == IF i = 0 THEN 0
                    ELSE IF a[i] < b[i] THEN -1
                    ELSE IF a[i] > b[i] THEN 1
                    ELSE CmpFrom(a, b, i - 1)
CmpDef(a, b) == IF Len(a) < Len(b) THEN -1
                ELSE IF Len(a) > Len(b) THEN 1
                ELSE CmpFrom(a, b, Len(a))
Cmp(a, b) == CmpDef(a, b)
Lt(a, b) == Cmp(a, b) < 0
Le(a, b) == Cmp(a, b) <= 0
Gt(a, b) == Cmp(a, b) > 0
Ge(a, b) == Cmp(a, b) >= 0
Eq(a, b) == a = b

(* addition, schoolbook with carry *)
RECURSIVE AddC(_, _, _)
AddC(a, b, c) ==
  IF Len(a) = 0 /\ Len(b) = 0 THEN (IF c = 0 THEN <<>> ELSE <<c>>)
  ELSE LET da == IF Len(a) = 0 THEN 0 ELSE a[1]
           db == IF Len(b) = 0 THEN 0 ELSE b[1]
           s  == da + db + c
       IN <<s % 10>> \o AddC(IF Len(a) = 0 THEN <<>> ELSE Tail(a),
                             IF Len(b) = 0 THEN <<>> ELSE Tail(b), s \div 10)
AddDef(a, b) == AddC(a, b, 0)
Add(a, b) == AddDef(a, b)

(* subtraction a - b, requires a >= b *)
RECURSIVE SubB(_, _, _)
SubB(a, b, br) ==
  IF Len(a) = 0 THEN <<>>
  ELSE LET db == IF Len(b) = 0 THEN 0 ELSE b[1]
           d  == a[1] - db - br
       IN <<IF d < 0 THEN d + 10 ELSE d>> \o
          SubB(Tail(a), IF Len(b) = 0 THEN <<>> ELSE Tail(b), IF d < 0 THEN 1 ELSE 0)
SubDef(a, b) == NormDef(SubB(a, b, 0))
Sub(a, b) == SubDef(a, b)

(* |a - b| *)
AbsDiff(a, b) == IF Ge(a, b) THEN Sub(a, b) ELSE Sub(b, a)

(* multiplication by one digit, then schoolbook *)
RECURSIVE MulD(_, _, _)
MulD(a, d, c) ==
  IF Len(a) = 0 THEN (IF c = 0 THEN <<>> ELSE <<c>>)
  ELSE LET s == a[1] * d + c IN <<s % 10>> \o MulD(Tail(a), d, s \div 10)
RECURSIVE MulDef(_, _)
MulDef(a, b) ==
  IF Len(a) = 0 \/ Len(b) = 0 THEN <<>>
  ELSE LET first == IF b[1] = 0 THEN <<>> ELSE MulD(a, b[1], 0)
           rest  == MulDef(a, Tail(b))
       IN AddDef(first, IF Len(rest) = 0 THEN <<>> ELSE <<0>> \o rest)
Mul(a, b) == MulDef(a, b)

(* long division, one quotient digit per step, most significant first *)
RECURSIVE QDigit(_, _, _)
QDigit(r, b, q) == IF CmpDef(r, b) < 0 THEN <<q, r>> ELSE QDigit(SubDef(r, b), b, q + 1)
RECURSIVE DivStep(_, _, _, _, _)
DivStep(a, b, i, q, r) ==          \* digits a[i], a[i-1], ... still to bring down
  IF i = 0 THEN <<NormDef(q), r>>
  ELSE LET r1 == NormDef(<<a[i]>> \o r)
           qd == QDigit(r1, b, 0)
       IN DivStep(a, b, i - 1, <<qd[1]>> \o q, qd[2])
DivModDef(a, b) == DivStep(a, b, Len(a), <<>>, <<>>)   \* b # 0;  <<quotient, remainder>>
DivMod(a, b) == DivModDef(a, b)
Div(a, b) == DivMod(a, b)[1]
Mod(a, b) == DivMod(a, b)[2]

(* integer square root: largest s with s*s <= a, by bisection on the digit count *)
RECURSIVE ISqrtBis(_, _, _)
ISqrtBis(a, lo, hi) ==             \* invariant lo^2 <= a < hi^2
  IF CmpDef(AddDef(lo, One), hi) >= 0 THEN lo
  ELSE LET mid == DivModDef(AddDef(lo, hi), Two)[1]
       IN IF CmpDef(MulDef(mid, mid), a) <= 0 THEN ISqrtBis(a, mid, hi) ELSE ISqrtBis(a, lo, mid)
ISqrtDef(a) == IF Len(a) = 0 THEN <<>> ELSE ISqrtBis(a, <<>>, Pow10((Len(a) + 1) \div 2))
ISqrt(a) == ISqrtDef(a)

(* power with a small TLC-integer exponent *)
RECURSIVE PowDef(_, _)
PowDef(a, n) == IF n = 0 THEN One ELSE MulDef(a, PowDef(a, n - 1))
Pow(a, n) == PowDef(a, n)

IsEven(a) == Len(a) = 0 \/ a[1] % 2 = 0

Max2(a, b) == IF Ge(a, b) THEN a ELSE b
Min2(a, b) == IF Le(a, b) THEN a ELSE b

(***************************************************************************)
(* Words.  A word vector is a little-endian sequence of BigNats, each one  *)
(* expected to be < 10^dw.  ConcatWords gives sum w[i] * 10^(dw*(i-1)).     *)
(* It does NOT require the words to be below the base (a word >= base      *)
(* simply carries into the next one) so that it is total on observations.  *)
(***************************************************************************)
RECURSIVE ConcatWordsDef(_, _)
ConcatWordsDef(ws, dw) ==
  IF Len(ws) = 0 THEN <<>>
  ELSE AddDef(ws[1], Shl(ConcatWordsDef(Tail(ws), dw), dw))
ConcatWords(ws, dw) == ConcatWordsDef(ws, dw)

(* split a into n words of dw digits (low word first); a < 10^(n*dw) *)
RECURSIVE SplitWordsDef(_, _, _)
SplitWordsDef(a, dw, n) ==
  IF n = 0 THEN <<>> ELSE <<Low(a, dw)>> \o SplitWordsDef(Shr(a, dw), dw, n - 1)
SplitWords(a, dw, n) == SplitWordsDef(a, dw, n)

(***************************************************************************)
(* I/O helpers without a TLA+ meaning of their own (same status as         *)
(* ndJsonDeserialize): decimal string -> BigNat and back.  Wide numbers    *)
(* travel through JSON as strings.                                         *)
(***************************************************************************)
FromStr(s) == CHOOSE a \in Seq(Digit) : TRUE      \* overridden: "00120" -> <<0,2,1>>
ToStr(a)   == CHOOSE s \in STRING : TRUE          \* overridden: <<0,2,1>> -> "120"

=============================================================================
