------------------------------ MODULE DecKernels ------------------------------
(***************************************************************************)
(* The word kernels (property C07): for each of the decimal vector and     *)
(* scalar routines of dec_arith.go / dec_arith_amd64.s the MATHEMATICAL    *)
(* post-condition over the PRE-state vectors - so that an in-place call    *)
(* has a defined meaning: the result is what a call with a separate        *)
(* destination would give -, words outside z[0:n] unchanged, result words  *)
(* below the base, carry in its range.  Words are BigNats; the base is     *)
(* 10^KW (KW = 19 for the 64-bit library, 2 in bounded models).            *)
(* mem: the backing array (sequence of words); zo, xo, yo: 0-based         *)
(* offsets; n: vector length.                                              *)
(***************************************************************************)
EXTENDS DecParse

CONSTANT KW                       \* digits per word

KB == Pow10(KW)
KVal(mem, o, n) == ConcatWords(SubSeq(mem, o + 1, o + n), KW)
KFrame(pre, post, zo, n) == /\ Len(post) = Len(pre)
                            /\ \A i \in 1..Len(pre) : (i <= zo \/ i > zo + n) => post[i] = pre[i]
KInRange(post, zo, n) == \A i \in (zo + 1)..(zo + n) : Lt(post[i], KB)
Bit(c) == c = Zero \/ c = One

(* a: record of the call's arguments [zo, xo, yo, n, y, r, s] (words as BigNat, s and offsets as integers) *)
KernelPost(name, pre, post, c, a) ==
  LET n  == a.n
      Bn == Pow10(KW * n)
      X  == KVal(pre, a.xo, n)
      Z0 == KVal(pre, a.zo, n)
      Z  == KVal(post, a.zo, n)
  IN /\ KFrame(pre, post, a.zo, n) /\ KInRange(post, a.zo, n)
     /\ CASE name = "add10VV" -> Bit(c) /\ Add(Z, Mul(c, Bn)) = Add(X, KVal(pre, a.yo, n))
          [] name = "sub10VV" -> Bit(c) /\ Add(Z, KVal(pre, a.yo, n)) = Add(X, Mul(c, Bn))
          [] name = "add10VW" -> IF n = 0 THEN c = a.y ELSE Bit(c) /\ Add(Z, Mul(c, Bn)) = Add(X, a.y)
          [] name = "sub10VW" -> IF n = 0 THEN c = a.y ELSE Bit(c) /\ Add(Z, a.y) = Add(X, Mul(c, Bn))
          [] name = "shl10VU" -> Lt(c, Pow10(a.s)) /\ Add(Z, Mul(c, Bn)) = Shl(X, a.s)                  \* z + c*B^n = x * 10^s
          [] name = "shr10VU" -> IF n = 0 THEN c = Zero
                                 ELSE /\ Lt(c, KB) /\ Low(c, KW - a.s) = Zero                             \* c = (x mod 10^s) * 10^(KW-s)
                                      /\ Add(Shl(Z, a.s), Shr(c, KW - a.s)) = X
          [] name = "mulAdd10VWW" -> Lt(c, KB) /\ Add(Z, Mul(c, Bn)) = Add(Mul(X, a.y), a.r)             \* z + c*B^n = x*y + r
          [] name = "addMul10VVW" -> Lt(c, KB) /\ Add(Z, Mul(c, Bn)) = Add(Z0, Mul(X, a.y))              \* z + c*B^n = z0 + x*y
          [] name = "div10VWW" -> Lt(c, a.y) /\ Add(Mul(Z, a.y), c) = Add(Mul(a.r, Bn), X)                \* xn*B^n + x = z*y + rem  (xn < y)
          [] OTHER -> FALSE

(* scalar kernels: results c (first) and c2 (second) *)
ScalarPost(name, c, c2, a, W2) ==             \* W2 = 2^64 (machine word) for div10W
  CASE name = "mul10WW" -> Lt(c2, KB) /\ Add(Mul(c, KB), c2) = Mul(a.y, a.r)                              \* z1*B + z0 = x*y
    [] name = "div10W" -> Lt(c2, KB) /\ Add(Mul(c, KB), c2) = Add(Mul(a.y, W2), a.r)                      \* (n1*2^64 + n0) = q*B + r
    [] name = "div10WW" -> Lt(c2, a.w) /\ Add(Mul(c, a.w), c2) = Add(Mul(a.y, KB), a.r)                   \* u1*B + u0 = q*v + r  (u1 < v)
    [] name = "mulAdd10WWW" -> Lt(c2, KB) /\ Add(Mul(c, KB), c2) = Add(Mul(a.y, a.r), a.w)                \* hi*B + lo = x*y + c
    [] OTHER -> FALSE

(***************************************************************************)
(* Division by 10^k through multiplication (the tables behind shl10VU /   *)
(* shr10VU and nlz10): q = ((n >> pre) * m) >> (64 + post).               *)
(* Granlund & Montgomery, "Division by invariant integers using           *)
(* multiplication", Theorem 4.2: with d = 2^pre * d', L = 64 + post and   *)
(* N' = 64 - pre, if  2^L <= m*d' <= 2^L + 2^(L-N')  then                  *)
(* floor(m*n' / 2^L) = floor(n'/d') for EVERY 0 <= n' < 2^N', hence        *)
(* q = floor(n/d) for every 64-bit n.  A statement about all 2^64 inputs,  *)
(* decided by exact arithmetic on the table row.                           *)
(***************************************************************************)
MagicRowOK(d, m, pre, post, k) ==
  LET P2 == Pow(Two, pre)
      dp == Div(d, P2)
      L  == 64 + post
      md == Mul(m, dp)
  IN /\ d = Pow10(k)                                   \* row k divides by 10^k
     /\ Mod(d, P2) = Zero /\ Lt(m, Pow(Two, 64))
     /\ Le(Pow(Two, L), md) /\ Le(md, Add(Pow(Two, L), Pow(Two, L - (64 - pre))))

(* preconditions (what the library guarantees when it calls the kernel) *)
KernelPre(name, pre, a) ==
  /\ \A i \in 1..Len(pre) : Lt(pre[i], KB)
  /\ name \in {"add10VW", "sub10VW", "mulAdd10VWW", "addMul10VVW"} => Lt(a.y, KB)
  /\ name = "mulAdd10VWW" => Lt(a.r, KB)
  /\ name = "div10VWW" => Gt(a.y, Zero) /\ Lt(a.y, KB) /\ Lt(a.r, a.y)
  /\ name \in {"shl10VU", "shr10VU"} => a.s >= 0 /\ a.s < KW
  \* overlap: the destination is the source, or disjoint from it, or (shifts only: dec.shl / dec.shr move a value inside
  \* one buffer) at or above the source for shl10VU, at or below it for shr10VU
  /\ (a.zo = a.xo \/ a.zo >= a.xo + a.n \/ a.xo >= a.zo + a.n \/ (name = "shl10VU" /\ a.zo > a.xo) \/ (name = "shr10VU" /\ a.zo < a.xo))
=============================================================================
