---------------------------- MODULE DecPoolTrace ----------------------------
(* The observable part of the scratch-pool protocol of DecPool (Get/Put; Use is not observable), *)
(* as a check on a recorded sequence of pool events.                                             *)
EXTENDS Integers, Sequences

(***************************************************************************)
(* Trace side: a recorded sequence of pool events [g, put, buf] must be a  *)
(* behaviour of Get/Put above (Use is not observable): Get of a buffer     *)
(* that has no holder, Put only by the holder.  Returns the index of the   *)
(* first offending event, 0 if none.                                       *)
(***************************************************************************)
RECURSIVE PoolTraceBad(_, _, _)
PoolTraceBad(evs, i, h) ==      \* h: function buf -> goroutine for the buffers currently held
  IF i > Len(evs) THEN 0
  ELSE LET e == evs[i] IN
       IF e.put
       THEN (IF e.buf \in DOMAIN h /\ h[e.buf] = e.g
             THEN PoolTraceBad(evs, i + 1, [b \in DOMAIN h \ {e.buf} |-> h[b]])
             ELSE i)
       ELSE (IF e.buf \in DOMAIN h THEN i
             ELSE PoolTraceBad(evs, i + 1, [b \in DOMAIN h \cup {e.buf} |-> IF b = e.buf THEN e.g ELSE h[b]]))
PoolTraceOK(evs) == PoolTraceBad(evs, 1, <<>>) = 0
=============================================================================
