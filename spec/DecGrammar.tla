------------------------------ MODULE DecGrammar ------------------------------
(***************************************************************************)
(* The literal grammar of Parse as its documentation states it (EBNF in    *)
(* decimal_conv.go), written declaratively: no scanning loop, no state,    *)
(* only "there is a way to cut the string into the parts the grammar       *)
(* names".  mc/MC_Parse lets TLC compare it with the operational           *)
(* recogniser DecParse!ParseLitX (shaped like dec.scan / scanExponent,     *)
(* the one the traces of the real parser are validated against) on EVERY   *)
(* string up to a bounded length over the grammar's alphabet.              *)
(*                                                                         *)
(*   number    = [ sign ] ( float | "inf" | "Inf" ) .                      *)
(*   float     = ( mantissa | prefix pmantissa ) [ exponent ] .            *)
(*   prefix    = "0" [ "b" | "B" | "o" | "O" | "x" | "X" ] .               *)
(*   mantissa  = digits "." [ digits ] | digits | "." digits .             *)
(*   pmantissa = [ "_" ] digits "." [ digits ] | [ "_" ] digits | "." digits . *)
(*   exponent  = ( "e" | "E" | "p" | "P" ) [ sign ] digits .               *)
(*   digits    = digit { [ "_" ] digit } .                                 *)
(*                                                                         *)
(* Refinements the prose adds: "_" only with base argument 0; a digit must *)
(* be below the base; with base 16 "e"/"E" are digits; the prefix only     *)
(* with base argument 0; the exponent is decimal and must fit int64.       *)
(***************************************************************************)
EXTENDS DecParse

IsDig(c, b) == DigitVal(c) < b

(* digits = digit { [ "_" ] digit }   (us: are underscores part of the language here) *)
GDigits(s, b, us) ==
  /\ Len(s) >= 1 /\ IsDig(s[1], b) /\ IsDig(s[Len(s)], b)
  /\ \A i \in 1..Len(s) : IsDig(s[i], b) \/ (us /\ s[i] = "_" /\ s[i - 1] # "_")

(* [ "_" ] digits : only right after a base prefix *)
GPDigits(s, b, us, lead) == GDigits(s, b, us) \/ (lead /\ us /\ Len(s) >= 2 /\ s[1] = "_" /\ GDigits(Tail(s), b, us))

(* mantissa / pmantissa (lead = a prefix precedes it) *)
GMantissa(s, b, us, lead) ==
  \/ GPDigits(s, b, us, lead)
  \/ \E k \in 1..Len(s) :
       /\ s[k] = "."
       /\ LET ip == SubSeq(s, 1, k - 1)  fp == SubSeq(s, k + 1, Len(s))
          IN \/ GPDigits(ip, b, us, lead) /\ (fp = <<>> \/ GDigits(fp, b, us))
             \/ ip = <<>> /\ GDigits(fp, b, us)

(* exponent = ( "e" | "E" | "p" | "P" ) [ sign ] digits, decimal, within int64 *)
GExpDigits(s) == IF s[1] \in {"+", "-"} THEN Tail(s) ELSE s
GExpVal(s, us) == LET d == SelectSeq(GExpDigits(s), LAMBDA c : c # "_") IN FromStr(Unchars(d))
GExponent(s, b, us) ==
  /\ Len(s) >= 2 /\ s[1] \in (IF b = 16 THEN {"p", "P"} ELSE {"e", "E", "p", "P"})     \* with base 16, "e" is a mantissa digit
  /\ LET t == Tail(s) IN
       /\ Len(GExpDigits(t)) >= 1 /\ GDigits(GExpDigits(t), 10, us)
       /\ IF t[1] = "-" THEN Le(GExpVal(t, us), Int64MinMag) ELSE Le(GExpVal(t, us), Int64Max)

(* float with actual base b: mantissa then optional exponent; the split point is where the exponent letter stands *)
GFloatB(s, b, us, lead) ==
  \/ GMantissa(s, b, us, lead)
  \/ \E k \in 2..Len(s) : GMantissa(SubSeq(s, 1, k - 1), b, us, lead) /\ GExponent(SubSeq(s, k, Len(s)), b, us)

(* float = ( mantissa | prefix pmantissa ) [ exponent ] under base argument ba *)
GFloat(s, ba) ==
  IF ba # 0 THEN GFloatB(s, ba, FALSE, FALSE)
  ELSE \/ GFloatB(s, 10, TRUE, FALSE)
       \/ /\ Len(s) >= 3 /\ s[1] = "0"
          /\ \/ s[2] \in {"b", "B"} /\ GFloatB(SubSeq(s, 3, Len(s)), 2, TRUE, TRUE)
             \/ s[2] \in {"o", "O"} /\ GFloatB(SubSeq(s, 3, Len(s)), 8, TRUE, TRUE)
             \/ s[2] \in {"x", "X"} /\ GFloatB(SubSeq(s, 3, Len(s)), 16, TRUE, TRUE)

GNumber(s, ba) ==
  LET body == IF Len(s) >= 1 /\ s[1] \in {"+", "-"} THEN Tail(s) ELSE s
  IN body \in {<<"i", "n", "f">>, <<"I", "n", "f">>} \/ (Len(body) >= 1 /\ GFloat(body, ba))

(***************************************************************************)
(* The value the grammar gives an accepted float: the digit characters of  *)
(* the mantissa read in the base, the number of digits after the point,    *)
(* the exponent.                                                           *)
(***************************************************************************)
RECURSIVE DigitsVal(_, _)
DigitsVal(ds, b) == IF Len(ds) = 0 THEN Zero ELSE Add(Mul(DigitsVal(SubSeq(ds, 1, Len(ds) - 1), b), FromInt(b)), FromInt(DigitVal(ds[Len(ds)])))
=============================================================================
