------------------------------- MODULE BigInt -------------------------------
(***************************************************************************)
(* Signed wide integers over BigNat: [neg, mag], zero is non-negative.     *)
(* Used for every exponent computation: the sum of two int32 exponents,    *)
(* an int64 exponent argument, MinExp - 1 ... do not fit a TLC integer.    *)
(***************************************************************************)
EXTENDS BigNat

IMk(neg, mag) == [neg |-> neg /\ Len(mag) > 0, mag |-> mag]
IZero == IMk(FALSE, <<>>)
IOne  == IMk(FALSE, One)
IsInt(a) == DOMAIN a = {"neg", "mag"} /\ IsNat(a.mag) /\ a.neg \in BOOLEAN /\ (a.neg => Len(a.mag) > 0)

(* from a TLC integer (also -2^31, whose negation does not exist in TLC) *)
IFromInt(n) == IF n >= 0 THEN IMk(FALSE, FromInt(n))
               ELSE IMk(TRUE, Add(FromInt(-(n + 1)), One))
IFromNat(a) == IMk(FALSE, a)
(* to a TLC integer; TLC reports an overflow when it does not fit *)
IToInt(a) == IF a.neg THEN -ToInt(a.mag) ELSE ToInt(a.mag)

INeg(a) == IMk(~a.neg, a.mag)
IAbs(a) == a.mag
ISign(a) == IF Len(a.mag) = 0 THEN 0 ELSE IF a.neg THEN -1 ELSE 1

IAdd(a, b) == IF a.neg = b.neg THEN IMk(a.neg, Add(a.mag, b.mag))
              ELSE IF Ge(a.mag, b.mag) THEN IMk(a.neg, Sub(a.mag, b.mag))
              ELSE IMk(b.neg, Sub(b.mag, a.mag))
ISub(a, b) == IAdd(a, INeg(b))
IMul(a, b) == IMk(a.neg # b.neg, Mul(a.mag, b.mag))
IAddInt(a, n) == IAdd(a, IFromInt(n))

ICmp(a, b) == IF a.neg /\ ~b.neg THEN -1
              ELSE IF ~a.neg /\ b.neg THEN 1
              ELSE IF a.neg THEN Cmp(b.mag, a.mag) ELSE Cmp(a.mag, b.mag)
ILt(a, b) == ICmp(a, b) < 0
ILe(a, b) == ICmp(a, b) <= 0
IGt(a, b) == ICmp(a, b) > 0
IGe(a, b) == ICmp(a, b) >= 0
IMax(a, b) == IF IGe(a, b) THEN a ELSE b
IMin(a, b) == IF ILe(a, b) THEN a ELSE b

(* floor(a / 2) and parity, for halving exponents *)
IIsEven(a) == IsEven(a.mag)
IHalfFloor(a) == IF ~a.neg THEN IMk(FALSE, Div(a.mag, Two))
                 ELSE IMk(TRUE, Div(Add(a.mag, One), Two))
IHalfTrunc(a) == IMk(a.neg, Div(a.mag, Two))

(* does a fit a TLC integer comfortably (|a| < 10^9)? *)
ISmall(a) == Len(a.mag) <= 9

(* I/O helper: "-123" / "123" -> BigInt (wide integers travel through JSON as strings) *)
IFromStr(s) == CHOOSE a \in [neg : BOOLEAN, mag : Seq(Digit)] : TRUE     \* overridden

Int32Min == IMk(TRUE, FromStr("2147483648"))
Int32Max == IMk(FALSE, FromStr("2147483647"))
=============================================================================
