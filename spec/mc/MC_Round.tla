------------------------------ MODULE MC_Round ------------------------------
(***************************************************************************)
(* (E) for C01/C02: the operational rounding function RoundTo satisfies    *)
(* the declarative statement CorrectlyRounded - value, accuracy, underflow *)
(* to a signed zero, overflow to a signed infinity - for EVERY exact       *)
(* value N/D * 10^e with N <= NMax, D in Dens, e in ERange, every          *)
(* precision 1..PMax, six modes, both signs, with the exponent range       *)
(* shrunk to [-2, 2] so that both range ends are two steps away.           *)
(* The enumeration is a binary tree over a mixed-radix counter so that the *)
(* workers share it.                                                       *)
(***************************************************************************)
EXTENDS DecCore, TLC
CONSTANTS NMax, PMax
VARIABLES i

MinExpV == IFromInt(-2)
MaxExpV == IFromInt(2)

Dens == <<1, 3, 7, 9, 11, 64>>
ELo == -4
ECount == 9                  \* e in -4..4
Total == NMax * Len(Dens) * ECount * PMax * 6 * 2

Case(n) ==
  LET neg  == (n % 2) = 1
      n1   == n \div 2
      mode == n1 % 6
      n2   == n1 \div 6
      p    == 1 + (n2 % PMax)
      n3   == n2 \div PMax
      e    == ELo + (n3 % ECount)
      n4   == n3 \div ECount
      D    == Dens[1 + (n4 % Len(Dens))]
      N    == 1 + (n4 \div Len(Dens))
  IN [neg |-> neg, mode |-> mode, p |-> p, e |-> IFromInt(e), D |-> FromInt(D), N |-> FromInt(N)]

Holds(c) ==
  LET r == RoundTo(c.neg, c.N, c.D, c.e, c.p, c.mode)
  IN /\ CorrectlyRounded(c.neg, c.N, c.D, c.e, c.p, c.mode, r)
     /\ (r.form = "finite" => IsNat(r.dig) /\ Len(r.dig) >= 1 /\ r.dig[1] # 0 /\ Len(r.dig) <= c.p)

Init == i = 0
Next == \E c \in {2 * i + 1, 2 * i + 2} : c < Total /\ i' = c
Spec == Init /\ [][Next]_i
Inv == Holds(Case(i))
=============================================================================
