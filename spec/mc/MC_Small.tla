------------------------------- MODULE MC_Small -------------------------------
(***************************************************************************)
(* (E) for C14, C15, C16, C20 on one small value domain: every Decimal      *)
(* with coefficient <= CMax, exponent -3..4 (value 0.c * 10^e), both signs, *)
(* the two zeros and the two infinities.                                    *)
(*  C14  Int64/Uint64 with 5-bit integers: the returned integer is x        *)
(*       truncated toward zero, saturated, and acc = sign(returned - x)     *)
(*       (stated with CmpVal on the integer as a Decimal, not with the      *)
(*       truncation used to define OpInt64); Int/IsInteger agree            *)
(*  C15  in a toy binary format (3 mantissa bits, exponents -3..3,          *)
(*       subnormals) exactly ONE float satisfies the declarative NearestOK  *)
(*       for every finite x: the statement "nearest, ties to even,          *)
(*       saturating" is total and functional                                *)
(*  C16  CmpVal is antisymmetric, transitive, equals the sign of the exact  *)
(*       difference (computed by the subtraction of DecOps at a precision   *)
(*       that makes it exact), -0 = +0, infinities at the ends              *)
(*  C20  SetMantExp(MantExp(x)) = x; SetMantExp saturates exactly when the  *)
(*       exponent leaves the range; SetBitsExp(words of x, exp of x) = |x|  *)
(***************************************************************************)
EXTENDS DecContext, TLC, FiniteSets
CONSTANT CMax
VARIABLES i
MinExpV == IFromInt(-6)
MaxExpV == IFromInt(6)
NV == CMax * 8 * 2 + 4
V(k) == IF k >= CMax * 16
        THEN LET j == k - CMax * 16 IN MkDec(IF j < 2 THEN "zero" ELSE "inf", j % 2 = 1, Zero, IZero, 3, 0, Exact)
        ELSE MkDec("finite", k % 2 = 1, StripTZ(FromInt(1 + (k \div 16))), IFromInt(((k \div 2) % 8) - 3), 3, 0, Exact)
Total == NV * NV

IntDec(v) == IF v.mag = Zero THEN MkDec("zero", FALSE, Zero, IZero, 9, 0, Exact)
             ELSE MkDec("finite", v.neg, StripTZ(v.mag), IFromInt(Len(v.mag)), 9, 0, Exact)
Bits == 5
(* C14 *)
ConvOK(x) ==
  LET r == OpInt64(x, Bits)  u == OpUint64(x, Bits)
      lo == IMk(TRUE, Pow2(Bits - 1))  hi == IMk(FALSE, Sub(Pow2(Bits - 1), One))  uhi == IMk(FALSE, Sub(Pow2(Bits), One))
      t == OpInt(x)
      inR(v) == ICmp(lo, v) <= 0 /\ ICmp(v, hi) <= 0
      step(v, d) == IntDec(IAdd(v, IFromInt(d)))
  IN /\ inR(r.v) /\ r.acc = CmpVal(IntDec(r.v), x)                               \* accuracy = sign(returned - x)
     /\ (x.form = "finite" /\ r.v # lo /\ r.v # hi) =>                             \* not saturated: x truncated toward zero
          (IF x.neg THEN CmpVal(IntDec(r.v), x) >= 0 /\ CmpVal(step(r.v, -1), x) < 0
                    ELSE CmpVal(IntDec(r.v), x) <= 0 /\ CmpVal(step(r.v, 1), x) > 0)
     /\ (r.v = hi /\ r.acc # Exact) => CmpVal(IntDec(hi), x) < 0                  \* saturation only beyond the bounds
     /\ (r.v = lo /\ r.acc # Exact) => CmpVal(IntDec(lo), x) > 0
     /\ ICmp(IZero, u.v) <= 0 /\ ICmp(u.v, uhi) <= 0 /\ u.acc = CmpVal(IntDec(u.v), x)
     /\ (x.form = "finite" /\ ~x.neg /\ u.v # uhi) => CmpVal(IntDec(u.v), x) <= 0 /\ CmpVal(step(u.v, 1), x) > 0
     /\ (x.form # "inf" => ~t.nil /\ t.acc = CmpVal(IntDec(t.v), x)) /\ (x.form = "inf" => t.nil)
     /\ IsInteger(x) = (x.form # "inf" /\ CmpVal(IntDec(t.v), x) = 0)

(* C15: toy format *)
Toy == [P |-> 3, qmin |-> -3, qmax |-> 3]
ToyFloats == {[k |-> "zero", neg |-> FALSE, m |-> Zero, q |-> 0], [k |-> "inf", neg |-> FALSE, m |-> Zero, q |-> 0]}
             \cup {[k |-> "fin", neg |-> FALSE, m |-> FromInt(m), q |-> q] : m \in 1..7, q \in -3..3}
FloatOK(x) == x.form # "finite" \/
              Cardinality({f \in ToyFloats : WellFormedBin(Toy, f) /\ NearestOK(FracA(x), FracB(x), Toy, f)}) = 1

(* C16 *)
Big == MkDec("zero", FALSE, Zero, IZero, 60, 0, Exact)
SignOfDiff(x, y) == LET w == OpSub(Big, x, y) IN IF w.out = "nan" THEN 0 ELSE IF w.d.form = "zero" THEN 0 ELSE IF w.d.neg THEN -1 ELSE 1
CmpOK(x, y) ==
  /\ CmpVal(x, y) = -CmpVal(y, x)
  /\ CmpVal(x, y) = SignOfDiff(x, y)
  /\ CmpVal(x, x) = 0
  /\ (x.form = "zero" /\ y.form = "zero") => CmpVal(x, y) = 0
  /\ (x.form = "inf" /\ ~x.neg /\ ~(y.form = "inf" /\ ~y.neg)) => CmpVal(x, y) = 1
(* transitivity over a third value drawn from a fixed subset *)
Thirds == {V(k) : k \in {0, 1, 5, 17, 32, 33, 100, CMax * 16, CMax * 16 + 1, CMax * 16 + 2, CMax * 16 + 3}}
TransOK(x, y) == \A z \in Thirds : (CmpVal(x, y) <= 0 /\ CmpVal(y, z) <= 0) => CmpVal(x, z) <= 0

(* C20 *)
Z0 == MkDec("zero", FALSE, Zero, IZero, 0, 0, Exact)
RawOK(x, y) ==
  LET m == OpMantExp(Z0, x).d
      back == OpSetMantExp(Z0, m, MantExpRet(x)).d
      \* shift x by y's exponent: saturates exactly when the exponent leaves the range
      sh == OpSetMantExp(Z0, x, IF y.form = "finite" THEN y.exp ELSE IZero).d
      e2 == IAdd(x.exp, IF y.form = "finite" THEN y.exp ELSE IZero)
  IN /\ SameValue(back, x) /\ back.prec = x.prec /\ back.mode = x.mode
     /\ x.form = "finite" => /\ (m.exp = IZero /\ m.dig = x.dig)
                             /\ (sh.form = "zero") = ILt(e2, MinExp) /\ (sh.form = "inf") = IGt(e2, MaxExp)
                             /\ (sh.form = "finite" => sh.dig = x.dig /\ sh.exp = e2 /\ sh.acc = Exact)
                             /\ LET ws == SplitWords(Shl(x.dig, 4 - Len(x.dig)), 2, 2)        \* x's digits as two 2-digit words
                                    sb == OpSetBitsExp(Z0, ws, x.exp, 2, 9).d
                                IN sb.form = "finite" /\ ~sb.neg /\ sb.dig = x.dig /\ sb.exp = x.exp

Init == i = 0
Next == \E c \in {2 * i + 1, 2 * i + 2} : c < Total /\ i' = c
Spec == Init /\ [][Next]_i
Inv == LET x == V(i % NV)  y == V(i \div NV)
       IN /\ CmpOK(x, y) /\ TransOK(x, y) /\ RawOK(x, y)
          /\ (i < NV => ConvOK(x) /\ FloatOK(x))
=============================================================================
