SPECIFICATION Spec
INVARIANT Inv
CONSTANTS
  Bound = 120
  NRand = 300
  MaxLen = 24
CHECK_DEADLOCK FALSE
