INIT CInit
NEXT CNext
INVARIANT AllWF
PROPERTY Latched
PROPERTY FirstWins
PROPERTY OnlyErrClears
PROPERTY ErrOnce
PROPERTY Rounded
CONSTANTS
  MinExp <- MinExpV
  MaxExp <- MaxExpV
  MaxPrec = 1000
  WS = 8
  DWg = 19
  Depth = 2
VIEW CView
CHECK_DEADLOCK FALSE
