SPECIFICATION PSpec
INVARIANT NoMisuse
INVARIANT FreeHasNoHolder
INVARIANT FreeDistinct
INVARIANT HeldNotFree
PROPERTY Refines
CONSTANTS
  Gor <- GorV
  Shape <- ShapeV
  NBuf = 6
  NG = 2
  EarlyPut = FALSE
CHECK_DEADLOCK FALSE
