SPECIFICATION Spec
INVARIANT Inv
CONSTANTS
  MinExp <- MinExpV
  MaxExp <- MaxExpV
  MaxPrec = 2147483647
  WS = 1
  DWg = 2
  KW = 1
  NMax = 3
  Alpha <- AlphaV
CHECK_DEADLOCK FALSE
