------------------------------- MODULE MC_Algo -------------------------------
(***************************************************************************)
(* (E) for C06 at design level: the transcription of dec.div / divLarge /   *)
(* divBasic is correct for EVERY dividend of up to ULen words and EVERY     *)
(* divisor of 1..VLen words (top word non-zero) in base Bs.  With           *)
(* AddBackWraps = FALSE (the pinned tree) TLC finds the counterexample of   *)
(* defect D1 within a second (the check asserts it: non-vacuity).           *)
(***************************************************************************)
EXTENDS DecAlgo, TLC
CONSTANTS ULen, VLen
VARIABLES i
RECURSIVE PowI(_, _)
PowI(b, n) == IF n = 0 THEN 1 ELSE b * PowI(b, n - 1)
NU == PowI(Bs, ULen)
NVv == PowI(Bs, VLen)
Total == NU * NVv
RECURSIVE WordsOfInt(_, _)
WordsOfInt(x, n) == IF n = 0 THEN <<>> ELSE <<x % Bs>> \o WordsOfInt(x \div Bs, n - 1)
Holds(k) ==
  LET u == NormW(WordsOfInt(k % NU, ULen))
      v == NormW(WordsOfInt(k \div NU, VLen))
  IN Len(v) = 0 \/ DivCorrect(u, v)
Init == i = 0
Next == \E c \in {2 * i + 1, 2 * i + 2} : c < Total /\ i' = c
Spec == Init /\ [][Next]_i
Inv == Holds(i)
=============================================================================
