----------------------------- MODULE MC_Kernels -----------------------------
(***************************************************************************)
(* (E) for C07, and the joint between two layers of the specification:     *)
(* the word-vector primitives that DecAlgo's transcriptions of the         *)
(* multi-word algorithms are built from (AddVV, SubVV, AddVW, SubVW,       *)
(* MulAddVWW, AddMulVVW, DivVW, ShlVU, ShrVU - the logic of the portable   *)
(* Go kernels) satisfy the mathematical post-conditions of DecKernels      *)
(* (KernelPost - what every recorded call of the real assembly and Go      *)
(* kernels is judged by), for EVERY pair of vectors of up to NMax words    *)
(* over the word alphabet Alpha, every scalar of Alpha and every shift, in *)
(* base 10^KW.                                                             *)
(***************************************************************************)
EXTENDS DecKernels, TLC
CONSTANTS NMax, Alpha            \* Alpha: sequence of words (integers below 10^KW)
VARIABLE i
MinExpV == Int32Min
MaxExpV == Int32Max
(* every digit in base 10; a spread of words in base 100 *)
AlphaV == IF KW = 1 THEN <<0, 1, 2, 3, 4, 5, 6, 7, 8, 9>> ELSE <<0, 1, 9, 10, 49, 50, 90, 99>>

RECURSIVE PowI(_, _)
PowI(b, n) == IF n = 0 THEN 1 ELSE b * PowI(b, n - 1)
A == INSTANCE DecAlgo WITH Bs <- PowI(10, KW), AddBackWraps <- TRUE, KarThr <- 2, BasicSqrThr <- 2, KarSqrThr <- 2,
                           DivRecThr <- 100, LowBlockAtB <- FALSE

NA == Len(Alpha)
(* the k-th pair of vectors: lengths n = 0..NMax, all NA^(2n) contents *)
RECURSIVE VecOf(_, _)
VecOf(k, n) == IF n = 0 THEN <<>> ELSE <<Alpha[(k % NA) + 1]>> \o VecOf(k \div NA, n - 1)
RECURSIVE Before(_)
Before(n) == IF n = 0 THEN 0 ELSE Before(n - 1) + PowI(NA, 2 * (n - 1))       \* pairs of length < n
Total == Before(NMax + 1)
LenOf(k) == CHOOSE n \in 0..NMax : Before(n) <= k /\ k < Before(n + 1)
XOf(k) == LET n == LenOf(k) IN VecOf((k - Before(n)) % PowI(NA, n), n)
YOf(k) == LET n == LenOf(k) IN VecOf((k - Before(n)) \div PowI(NA, n), n)

W(v) == [j \in 1..Len(v) |-> FromInt(v[j])]
Args(n, yw, rw, s) == [zo |-> 2 * n, xo |-> 0, yo |-> n, n |-> n, y |-> FromInt(yw), r |-> FromInt(rw), s |-> s]
(* memory: x | y | z ; the result replaces z *)
Post(name, x, y, z0, res, c, yw, rw, s) ==
  KernelPost(name, W(x) \o W(y) \o W(z0), W(x) \o W(y) \o W(res), FromInt(c), Args(Len(x), yw, rw, s))

Holds(k) ==
  LET x == XOf(k)  y == YOf(k)  n == Len(x)
  IN /\ LET r == A!AddVV(x, y, 0) IN Post("add10VV", x, y, y, r[1], r[2], 0, 0, 0)
     /\ LET r == A!SubVV(x, y, 0) IN Post("sub10VV", x, y, y, r[1], r[2], 0, 0, 0)
     /\ \A a \in 1..NA :
          LET w == Alpha[a] IN
            /\ LET r == A!AddVW(x, w) IN Post("add10VW", x, y, y, r[1], r[2], w, 0, 0)
            /\ LET r == A!SubVW(x, w) IN Post("sub10VW", x, y, y, r[1], r[2], w, 0, 0)
            /\ LET r == A!AddMulVVW(y, x, w, 0) IN Post("addMul10VVW", x, y, y, r[1], r[2], w, 0, 0)      \* z0 = y
            /\ \A b \in 1..NA :
                 /\ LET r == A!MulAddVWW(x, w, Alpha[b]) IN Post("mulAdd10VWW", x, y, y, r[1], r[2], w, Alpha[b], 0)
                 /\ (w > 0 /\ Alpha[b] < w) => LET r == A!DivVW(x, w, Alpha[b]) IN Post("div10VWW", x, y, y, r[1], r[2], w, Alpha[b], 0)
     /\ \A s \in 0..(KW - 1) :
          /\ LET r == A!ShlVU(x, s, KW) IN Post("shl10VU", x, y, y, r[1], r[2], 0, 0, s)
          /\ LET r == A!ShrVU(x, s, KW) IN Post("shr10VU", x, y, y, r[1], r[2], 0, 0, s)

Init == i = 0
Next == \E c \in {2 * i + 1, 2 * i + 2} : c < Total /\ i' = c
Spec == Init /\ [][Next]_i
Inv == Holds(i)
=============================================================================
