------------------------------- MODULE MC_Sqrt -------------------------------
(***************************************************************************)
(* (E) for C05: the operational square root (integer square root of a      *)
(* scaled coefficient + remainder as sticky, then RoundTo) satisfies the    *)
(* declarative, squaring-only statement SqrtOK, for EVERY x = N * 10^e      *)
(* with N <= NMax, e in -4..4, every precision 1..PMax, six modes; perfect  *)
(* squares give their exact root in every mode.                             *)
(***************************************************************************)
EXTENDS DecSqrt, TLC
CONSTANTS NMax, PMax
VARIABLES i
MinExpV == IFromInt(-9)
MaxExpV == IFromInt(9)
Total == NMax * 9 * PMax * 6
Case(n) == [mode |-> n % 6, p |-> 1 + ((n \div 6) % PMax), e |-> IFromInt(((n \div (6 * PMax)) % 9) - 4), N |-> FromInt(1 + (n \div (54 * PMax)))]
Holds(c) ==
  LET r == SqrtRound(c.N, c.e, c.p, c.mode)
      s == ISqrt(c.N)
  IN /\ r.form = "finite" /\ SqrtOK(c.N, c.e, c.p, c.mode, r)
     /\ (r.acc = Exact \/ SqrtFaithful(c.N, c.e, c.p, r))
     \* a perfect square with an even exponent whose root fits: exact in every mode
     /\ (Mul(s, s) = c.N /\ IIsEven(c.e) /\ Len(s) - TrailingZeros(s) <= c.p) =>
          /\ r.acc = Exact /\ r.dig = StripTZ(s)
Init == i = 0
Next == \E c \in {2 * i + 1, 2 * i + 2} : c < Total /\ i' = c
Spec == Init /\ [][Next]_i
Inv == Holds(Case(i))
=============================================================================
