SPECIFICATION Spec
INVARIANT Inv
CONSTANTS
  MinExp <- MinExpV
  MaxExp <- MaxExpV
  MaxPrec = 1000
  CMax = 99
  WS = 8
  DWg = 19
CHECK_DEADLOCK FALSE
