SPECIFICATION Spec
INVARIANT Inv
CONSTANTS
  NMax = 120
  PMax = 3
  MinExp <- MinExpV
  MaxExp <- MaxExpV
CHECK_DEADLOCK FALSE
