----------------------------- MODULE MC_AlgoMul -----------------------------
(***************************************************************************)
(* (E) for C06 at design level: the transcription of dec.mul / dec.sqr     *)
(* (schoolbook, Karatsuba with its scratch-buffer layout, the unbalanced   *)
(* operand loop, basicSqr, karatsubaSqr) returns the exact normalised      *)
(* product for EVERY pair of operands of up to XLen and YLen words in base *)
(* Bs, under the threshold assignment given as constants (the library's    *)
(* thresholds are tuning variables: the algorithms must be correct for any *)
(* assignment, and small ones reach every branch with short operands).     *)
(***************************************************************************)
EXTENDS DecAlgo, TLC
CONSTANTS XLen, YLen
VARIABLES i
RECURSIVE PowI(_, _)
PowI(b, n) == IF n = 0 THEN 1 ELSE b * PowI(b, n - 1)
NX == PowI(Bs, XLen)
NY == PowI(Bs, YLen)
Total == NX * NY
RECURSIVE WordsOfInt(_, _)
WordsOfInt(x, n) == IF n = 0 THEN <<>> ELSE <<x % Bs>> \o WordsOfInt(x \div Bs, n - 1)
Holds(k) ==
  LET x == NormW(WordsOfInt(k % NX, XLen))
      y == NormW(WordsOfInt(k \div NX, YLen))
  IN /\ MulCorrect(x, y)
     /\ (k \div NX = 0 => SqrCorrect(x))
     \* the unnormalised second operand the recursive division passes (v[:s] with zero top words)
     /\ LET yu == WordsOfInt(k \div NX, YLen) IN ValW(Mul(x, yu)) = ValW(x) * ValW(yu)
Init == i = 0
Next == \E c \in {2 * i + 1, 2 * i + 2} : c < Total /\ i' = c
Spec == Init /\ [][Next]_i
Inv == Holds(i)
=============================================================================
