SPECIFICATION Spec
INVARIANT Inv
CONSTANTS
  NMax = 30
  PMax = 2
  GapMax = 9
  MinExp <- MinExpV
  MaxExp <- MaxExpV
  MaxPrec = 1000
CHECK_DEADLOCK FALSE
