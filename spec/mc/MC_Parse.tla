------------------------------ MODULE MC_Parse ------------------------------
(***************************************************************************)
(* (E) for C12: on EVERY string of up to LMax characters over the          *)
(* grammar's alphabet and for every base argument, the operational         *)
(* recogniser (ParseLitX: the scanning loops the real parser's traces are  *)
(* validated against) accepts exactly the language of the documented EBNF  *)
(* (DecGrammar!GNumber), detects the same base, and computes the value the *)
(* grammar gives the literal (mantissa digits read in the base, number of  *)
(* fraction digits, exponent).                                             *)
(***************************************************************************)
EXTENDS DecGrammar, TLC
CONSTANT LMax
VARIABLE cs
MinExpV == Int32Min
MaxExpV == Int32Max
Alphabet == {"0", "1", "7", "9", "a", "_", ".", "e", "p", "x", "b", "-", "+"}

(* declarative reading of an accepted float *)
Body(s) == IF Len(s) >= 1 /\ s[1] \in {"+", "-"} THEN Tail(s) ELSE s
GBase(s, ba) == IF ba # 0 THEN ba
                ELSE IF Len(s) >= 2 /\ s[1] = "0" /\ s[2] \in {"b", "B"} /\ ~GFloatB(s, 10, TRUE, FALSE) THEN 2
                ELSE IF Len(s) >= 2 /\ s[1] = "0" /\ s[2] \in {"o", "O"} /\ ~GFloatB(s, 10, TRUE, FALSE) THEN 8
                ELSE IF Len(s) >= 2 /\ s[1] = "0" /\ s[2] \in {"x", "X"} /\ ~GFloatB(s, 10, TRUE, FALSE) THEN 16
                ELSE 10
ExpLetters(b) == IF b = 16 THEN {"p", "P"} ELSE {"e", "E", "p", "P"}
ExpPos(s, b) == IF \E k \in 1..Len(s) : s[k] \in ExpLetters(b) THEN CHOOSE k \in 1..Len(s) : s[k] \in ExpLetters(b) /\ \A j \in 1..(k - 1) : s[j] \notin ExpLetters(b) ELSE Len(s) + 1
ValueAgrees(l, s0, ba) ==
  LET s  == Body(s0)
      b  == GBase(s, ba)
      m0 == IF ba = 0 /\ b # 10 THEN SubSeq(s, 3, Len(s)) ELSE s
      k  == ExpPos(m0, b)
      mant == SubSeq(m0, 1, k - 1)
      digs == SelectSeq(mant, LAMBDA c : c \notin {"_", "."})
      dot  == IF \E j \in 1..Len(mant) : mant[j] = "." THEN CHOOSE j \in 1..Len(mant) : mant[j] = "." ELSE Len(mant) + 1
      fd   == Len(SelectSeq(SubSeq(mant, dot + 1, Len(mant)), LAMBDA c : c # "_"))
      ex   == SubSeq(m0, k + 1, Len(m0))
  IN /\ l.base = b
     /\ l.neg = (s0[1] = "-")
     /\ l.M = DigitsVal(digs, b)
     /\ l.fdigits = fd
     /\ IF k > Len(m0) THEN l.exp = IZero /\ l.ebase = 10
        ELSE /\ l.ebase = (IF m0[k] \in {"p", "P"} THEN 2 ELSE 10)
             /\ l.exp = IMk(ex[1] = "-" /\ GExpVal(ex, TRUE) # Zero, GExpVal(ex, TRUE))

Holds(s) ==
  \A ba \in {0, 2, 8, 10, 16} :
    LET l == ParseLit(s, ba)
    IN /\ l.ok = GNumber(s, ba)
       /\ (l.ok /\ ~l.inf) => ValueAgrees(l, s, ba)

Init == cs = <<>>
Next == Len(cs) < LMax /\ \E c \in Alphabet : cs' = Append(cs, c)
Spec == Init /\ [][Next]_cs
Inv == Holds(cs)
=============================================================================
