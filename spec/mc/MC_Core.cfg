INIT MInit
NEXT MNext
INVARIANT AllWellFormed
PROPERTY PrecSticky
PROPERTY ModeSticky
PROPERTY OperandsUntouched
CONSTANTS
  MinExp <- MinExpV
  MaxExp <- MaxExpV
  MaxPrec = 2147483647
  Reg <- RegV
  Lits <- LitsV
  PrecPool <- PrecPoolV
  SmallInts <- SmallIntsV
  Depth = 2
VIEW View
CHECK_DEADLOCK FALSE
