------------------------------- MODULE MC_Pool -------------------------------
(* (E) for C18: every interleaving of the scratch-pool micro-steps of two or three goroutines running   *)
(* long division (divLarge: get v; divBasic: get qhatv, use, put; use v; put v), Karatsuba              *)
(* multiplication (get t, use, put) and squaring, with at most NBuf buffers.                            *)
EXTENDS DecPool, TLC
CONSTANT NG
Div == <<<<"get", 1>>, <<"use", 1>>, <<"get", 2>>, <<"use", 2>>, <<"use", 1>>, <<"put", 2>>, <<"use", 1>>, <<"put", 1>>>>
Mul == <<<<"get", 1>>, <<"use", 1>>, <<"put", 1>>>>
(* the defect: the divisor copy is put back before divBasic uses it *)
DivEarly == <<<<"get", 1>>, <<"use", 1>>, <<"put", 1>>, <<"get", 2>>, <<"use", 2>>, <<"use", 1>>, <<"put", 2>>>>
GorV == IF NG = 2 THEN {"g1", "g2"} ELSE {"g1", "g2", "g3"}
ShapeV == IF EarlyPut THEN [g \in GorV |-> IF g = "g1" THEN DivEarly ELSE Mul \o Div]
          ELSE [g \in GorV |-> CASE g = "g1" -> Div \o Mul [] g = "g2" -> Mul \o Div [] OTHER -> Div \o Div]
=============================================================================
