SPECIFICATION Spec
INVARIANT Inv
CONSTANTS
  MinExp <- MinExpV
  MaxExp <- MaxExpV
  MaxPrec = 1000
  WS = 8
  DWg = 19
  CMax = 40
CHECK_DEADLOCK FALSE
