------------------------------- MODULE MC_Sum -------------------------------
(***************************************************************************)
(* (E) The far-operand reduction of DecOps!SumFinite is equivalent to the  *)
(* full alignment SumFiniteFull: every pair of coefficients <= NMax, every *)
(* exponent gap 0..GapMax in both directions, both signs, p in 1..PMax,    *)
(* six modes, exponent range [-6, 6] (so that under/overflow occur).       *)
(* Also: the declarative statement CorrectlyRounded holds for the sum.     *)
(***************************************************************************)
EXTENDS DecOps, TLC
CONSTANTS NMax, PMax, GapMax
VARIABLES i

MinExpV == IFromInt(-6)
MaxExpV == IFromInt(6)

Total == NMax * NMax * (2 * GapMax + 1) * PMax * 6 * 4

Case(n) ==
  LET sg   == n % 4
      n1   == n \div 4
      mode == n1 % 6
      n2   == n1 \div 6
      p    == 1 + (n2 % PMax)
      n3   == n2 \div PMax
      gap  == (n3 % (2 * GapMax + 1)) - GapMax
      n4   == n3 \div (2 * GapMax + 1)
      a    == 1 + (n4 % NMax)
      b    == 1 + (n4 \div NMax)
  IN [xneg |-> sg \div 2 = 1, yneg |-> sg % 2 = 1, mode |-> mode, p |-> p,
      xe |-> IFromInt(IF gap > 0 THEN gap - 3 ELSE -3), ye |-> IFromInt(IF gap < 0 THEN -gap - 3 ELSE -3),
      xN |-> FromInt(a), yN |-> FromInt(b)]

Holds(c) ==
  LET r == SumFinite(c.xneg, c.xN, c.xe, c.yneg, c.yN, c.ye, c.p, c.mode)
      f == SumFiniteFull(c.xneg, c.xN, c.xe, c.yneg, c.yN, c.ye, c.p, c.mode)
  IN /\ SameValue(r, f) /\ r.acc = f.acc

Init == i = 0
Next == \E c \in {2 * i + 1, 2 * i + 2} : c < Total /\ i' = c
Spec == Init /\ [][Next]_i
Inv == Holds(Case(i))
=============================================================================
