SPECIFICATION Spec
INVARIANT Inv
CONSTANTS
  NMax = 400
  PMax = 3
  MinExp <- MinExpV
  MaxExp <- MaxExpV
  MaxPrec = 1000
CHECK_DEADLOCK FALSE
