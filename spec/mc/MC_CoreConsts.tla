---------------------------- MODULE MC_CoreConsts ----------------------------
(* Constants shared by MC_Core (E) and MC_CoreSim (G): the exponent range is the library's (int32); literal *)
(* exponents sit at both ends so that overflow and underflow are one operation away.                       *)
EXTENDS DecimalSystem
MinExpV == Int32Min
MaxExpV == Int32Max
RegV == {"r0", "r1", "r2"}
LitsV == << [neg |-> FALSE, dig |-> "1", exp |-> 1, form |-> "finite"], [neg |-> TRUE, dig |-> "25", exp |-> 1, form |-> "finite"],
            [neg |-> FALSE, dig |-> "999", exp |-> 0, form |-> "finite"], [neg |-> FALSE, dig |-> "5", exp |-> -1, form |-> "finite"],
            [neg |-> FALSE, dig |-> "15", exp |-> 2147483647, form |-> "finite"], [neg |-> TRUE, dig |-> "9", exp |-> 2147483647, form |-> "finite"],
            [neg |-> FALSE, dig |-> "3", exp |-> -2147483647, form |-> "finite"], [neg |-> FALSE, dig |-> "125", exp |-> -1073741823, form |-> "finite"],
            [neg |-> FALSE, dig |-> "4", exp |-> 1, form |-> "finite"], [neg |-> FALSE, dig |-> "145", exp |-> 1, form |-> "finite"],
            [neg |-> FALSE, dig |-> "0", exp |-> 0, form |-> "zero"], [neg |-> TRUE, dig |-> "0", exp |-> 0, form |-> "zero"],
            [neg |-> FALSE, dig |-> "0", exp |-> 0, form |-> "inf"], [neg |-> TRUE, dig |-> "0", exp |-> 0, form |-> "inf"] >>
PrecPoolV == {1, 2, 5}
SmallIntsV == {-7, 0, 3, 120}
=============================================================================
