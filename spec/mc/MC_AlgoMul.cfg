SPECIFICATION Spec
INVARIANT Inv
CONSTANTS
  Bs = 4
  AddBackWraps = TRUE
  KarThr = 2
  BasicSqrThr = 2
  KarSqrThr = 2
  DivRecThr = 100
  LowBlockAtB = FALSE
  XLen = 5
  YLen = 4
CHECK_DEADLOCK FALSE
