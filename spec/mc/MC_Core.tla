------------------------------- MODULE MC_Core -------------------------------
(* Bounded instance of DecimalSystem.  The exponent range is the library's (int32): literal exponents sit   *)
(* at both ends so that overflow and underflow are one operation away; digits <= 3, precisions {1,2,5}.     *)
EXTENDS MC_CoreConsts
(* bounded exploration for (E): stop after Depth steps *)
CONSTANT Depth
VARIABLE depth
MInit == SInit /\ depth = 0
MNext == depth < Depth /\ SNext /\ depth' = depth + 1
MSpec == MInit /\ [][MNext]_<<svars, depth>>
View == <<regs>>
=============================================================================
