----------------------------- MODULE MC_BigNat -----------------------------
(* The Java accelerators of BigNat agree with the pure TLA+ definitions:   *)
(* exhaustively for all pairs below Bound, and on NRand pseudo-random      *)
(* operand pairs of 1..MaxLen digits.  Counter-driven (as a binary tree) so that workers share it. *)
EXTENDS BigNat, TLC
CONSTANTS Bound, NRand, MaxLen
VARIABLES i

Total == Bound * Bound + NRand

(* deterministic pseudo-random digit strings *)
RDigit(k, j) == ((k * 7919 + j * 10473 + (k % 977) * (j % 983) * 31 + 17) % 97) % 10
RNat(k, len) == Norm([j \in 1..len |-> RDigit(k, j)])
RLen(k) == 1 + ((k * 37 + (k \div 7)) % MaxLen)

OperandA(n) == IF n < Bound * Bound THEN FromIntDef(n \div Bound) ELSE RNat(2 * n, RLen(n))
OperandB(n) == IF n < Bound * Bound THEN FromIntDef(n % Bound) ELSE RNat(2 * n + 1, RLen(n * 3 + 1))

Agree(a, b) ==
  /\ IsNat(a) /\ IsNat(b)
  /\ Add(a, b) = AddDef(a, b)
  /\ Mul(a, b) = MulDef(a, b)
  /\ Cmp(a, b) = CmpDef(a, b)
  /\ (Cmp(a, b) >= 0 => Sub(a, b) = SubDef(a, b))
  /\ (Len(b) > 0 => DivMod(a, b) = DivModDef(a, b))
  /\ ISqrt(a) = ISqrtDef(a)
  /\ Norm(a \o <<0, 0>>) = NormDef(a \o <<0, 0>>)
  /\ TrailingZeros(a) = TrailingZerosDef(a)
  /\ TrailingZeros(<<0, 0>> \o a) = TrailingZerosDef(<<0, 0>> \o a)
  /\ FromStr(ToStr(a)) = a
  /\ ConcatWords(<<a, b>>, 3) = ConcatWordsDef(<<a, b>>, 3)
  /\ ConcatWords(<<b, <<>>, a>>, MaxLen) = ConcatWordsDef(<<b, <<>>, a>>, MaxLen)
  /\ SplitWords(a, 2, 3) = SplitWordsDef(a, 2, 3)
  /\ (Len(a) <= 6 => FromInt(ToIntDef(a)) = a /\ FromIntDef(ToIntDef(a)) = a)
  /\ (Len(a) <= 4 => Pow(a, 3) = PowDef(a, 3))
  \* algebraic sanity of the definitions themselves
  /\ (Len(b) > 0 => LET qr == DivModDef(a, b) IN AddDef(MulDef(qr[1], b), qr[2]) = a /\ CmpDef(qr[2], b) < 0)
  /\ LET s == ISqrtDef(a) IN CmpDef(MulDef(s, s), a) <= 0 /\ CmpDef(MulDef(AddDef(s, One), AddDef(s, One)), a) > 0

Init == i = 0
Next == \E c \in {2 * i + 1, 2 * i + 2} : c < Total /\ i' = c     \* a binary tree over 0..Total-1, so that the BFS frontier is wide
Spec == Init /\ [][Next]_i
Inv == i < Total => Agree(OperandA(i), OperandB(i))
=============================================================================
