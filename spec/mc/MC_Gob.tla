------------------------------- MODULE MC_Gob -------------------------------
(***************************************************************************)
(* (E) for C17 at specification level, with one-byte words of two digits    *)
(* (WS = 1, DWg = 2): for every canonical Decimal d with coefficient <=     *)
(* CMax, exponents at the int32 ends and around zero, every attribute:      *)
(* EncodeGob(d) is well formed and DecodeGob gives back exactly d; and for  *)
(* EVERY payload of up to LMax bytes over a small byte alphabet:            *)
(* WellFormedGob(bytes) implies that the decoded value is a well-formed     *)
(* Decimal (so "decoding is total: error or canonical" holds in the spec).  *)
(***************************************************************************)
EXTENDS DecContext, TLC
CONSTANTS CMax
VARIABLES i
MinExpV == Int32Min
MaxExpV == Int32Max
Exps == <<0, 1, -1, 2147483647, -2147483647, 77>>
Alphabet == <<0, 1, 9, 10, 99, 100>>          \* word bytes: 100 is the base (not a valid word), 9 has a zero leading digit
NA == Len(Alphabet)
NDec == (CMax + 4) * Len(Exps) * 3 * 6 * 3
Precs == <<0, 1, 2, 3, 200>>
FlagModes == <<0, 5, 6, 7>>
(* structured payloads: version 1, every combination of the attribute bits, precision, 0..LMax mantissa words *)
NWordSeqs == 1 + NA + NA * NA + NA * NA * NA
NBytes == 128 * Len(Precs) * NWordSeqs
Total == NDec + NBytes

DecOf(n) ==
  LET acc == (n % 3) - 1
      mode == (n \div 3) % 6
      pk == (n \div 18) % 3
      e == Exps[1 + ((n \div 54) % Len(Exps))]
      c == n \div (54 * Len(Exps))
  IN IF c >= CMax THEN MkDec(IF c - CMax < 2 THEN "zero" ELSE "inf", (c - CMax) % 2 = 1, Zero, IZero, <<0, 3, 40>>[pk + 1], mode, acc)
     ELSE LET d == StripTZ(FromInt(c + 1))
          IN MkDec("finite", c % 2 = 1, d, IFromInt(e), Len(d) + <<0, 1, 7>>[pk + 1], mode, acc)

WordSeq(k) ==                                   \* the k-th sequence of 0..3 word bytes
  IF k = 0 THEN <<>>
  ELSE IF k <= NA THEN <<Alphabet[k]>>
  ELSE IF k <= NA + NA * NA THEN LET j == k - NA - 1 IN <<Alphabet[1 + (j % NA)], Alphabet[1 + (j \div NA)]>>
  ELSE LET j == k - NA - NA * NA - 1 IN <<Alphabet[1 + (j % NA)], Alphabet[1 + ((j \div NA) % NA)], Alphabet[1 + (j \div (NA * NA))]>>

Payload(n) ==
  LET f == n % 128
      flags == FlagModes[1 + (f % 4)] * 32 + ((f \div 4) % 4) * 8 + ((f \div 16) % 4) * 2 + (f \div 64)
      p == Precs[1 + ((n \div 128) % Len(Precs))]
      ws == WordSeq(n \div (128 * Len(Precs)))
  IN <<1, flags, 0, 0, 0, p>> \o (IF Len(ws) = 0 /\ ((f \div 16) % 4) # 1 THEN <<>> ELSE <<0, 0, 0, 3>> \o ws)

Holds(n) ==
  IF n < NDec
  THEN LET d == DecOf(n)  bs == EncodeGob(d) IN WellFormedGob(bs) /\ DecodeGob(bs) = d
  ELSE LET bs == Payload(n - NDec)
       IN WellFormedGob(bs) => /\ WellFormed(DecodeGob(bs))
                               /\ DecodeGob(EncodeGob(DecodeGob(bs))) = DecodeGob(bs)   \* (encodings are not unique: low zero words may be present)
Init == i = 0
Next == \E c \in {2 * i + 1, 2 * i + 2} : c < Total /\ i' = c
Spec == Init /\ [][Next]_i
Inv == Holds(i)
=============================================================================
