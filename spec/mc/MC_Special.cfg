SPECIFICATION Spec
INVARIANT Inv
CONSTANTS
  MinExp <- MinExpV
  MaxExp <- MaxExpV
  MaxPrec = 1000
CHECK_DEADLOCK FALSE
