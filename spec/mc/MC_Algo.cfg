SPECIFICATION Spec
INVARIANT Inv
CONSTANTS
  Bs = 4
  AddBackWraps = TRUE
  ULen = 5
  VLen = 3
CHECK_DEADLOCK FALSE
