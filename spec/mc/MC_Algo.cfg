SPECIFICATION Spec
INVARIANT Inv
CONSTANTS
  Bs = 4
  AddBackWraps = TRUE
  KarThr = 2
  BasicSqrThr = 2
  KarSqrThr = 2
  DivRecThr = 100
  LowBlockAtB = FALSE
  ULen = 5
  VLen = 3
CHECK_DEADLOCK FALSE
