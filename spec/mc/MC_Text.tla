------------------------------- MODULE MC_Text -------------------------------
(***************************************************************************)
(* (E) for C11/C13 at specification level: for EVERY value with up to 3     *)
(* significant digits, exponents -6..8, both signs, zeros, infinities:      *)
(*  - the text produced by the layout specification with precision -1 in    *)
(*    the formats e E f g G p b is accepted by the literal grammar and      *)
(*    denotes exactly the same value and sign (C11; so DecText and DecParse *)
(*    are mutually consistent);                                             *)
(*  - with an explicit precision 0..4 under each of the six modes, the      *)
(*    text of formats e, f, g denotes the value obtained by RoundTo at the  *)
(*    requested digit position (C13: RoundCoef = the correctly rounded      *)
(*    digits, also when the position is at or above the leading digit).     *)
(***************************************************************************)
EXTENDS DecParse, TLC
CONSTANT CMax          \* largest coefficient (999 thorough, 99 quick)
VARIABLES i
MinExpV == IFromInt(-40)
MaxExpV == IFromInt(40)
Fmts == <<"e", "E", "f", "g", "G", "p", "b">>
NVals == CMax * 15 * 2 + 4
Total == NVals * 6

X(k) == IF k >= CMax * 15 * 2
        THEN LET j == k - CMax * 15 * 2 IN MkDec(IF j < 2 THEN "zero" ELSE "inf", j % 2 = 1, Zero, IZero, 5, 0, Exact)
        ELSE LET neg == k % 2 = 1
                 e == ((k \div 2) % 15) - 6
                 c == 1 + (k \div 30)
             IN MkDec("finite", neg, StripTZ(FromInt(c)), IFromInt(e), 5, 0, Exact)

Z == MkDec("zero", FALSE, Zero, IZero, 20, 0, Exact)
Denotes(s, base) == LET lt == ParseLit(Chars(s), base) IN IF lt.ok THEN OpParse(Z, lt) ELSE [out |-> "rejected"]

RoundTrip(x) == \A f \in 1..Len(Fmts) :
  LET w == Denotes(Text(x, Fmts[f], -1), 0) IN w.out = "ok" /\ SameValue(w.d, x) /\ w.d.acc = Exact

(* |x| = dig * 10^ce rounded to an integral multiple of 10^q: floor division, remainder against one half *)
FixedRound(neg, dig, ce, q, mode) ==
  IF IGe(ce, IFromInt(q)) THEN Res("finite", neg, dig, IAddInt(ce, Len(dig)), Exact)
  ELSE LET U  == Pow10(q - IToInt(ce))
           m0 == Div(dig, U)
           r  == Mod(dig, U)
           tw == Cmp(Mul(r, Two), U)
           inc == r # Zero /\ CASE mode = ToZero -> FALSE [] mode = AwayFromZero -> TRUE
                                 [] mode = ToNegativeInf -> neg [] mode = ToPositiveInf -> ~neg
                                 [] mode = ToNearestAway -> tw >= 0
                                 [] mode = ToNearestEven -> tw > 0 \/ (tw = 0 /\ ~IsEven(m0))
           m  == IF inc THEN Add(m0, One) ELSE m0
       IN IF m = Zero THEN Special("zero", neg)
          ELSE Res("finite", neg, StripTZ(m), IFromInt(q + Len(m)), Exact)

(* explicit precision: the printed number is x rounded once at the requested position *)
Rounded(x, mode) == \A prec \in 0..4 :
  LET xm == [x EXCEPT !.mode = mode]
      we == Denotes(Text(xm, "e", prec), 0)
      wf == Denotes(Text(xm, "f", prec), 0)
      wg == Denotes(Text(xm, "g", prec), 0)
      re == RoundTo(x.neg, x.dig, One, CoefExp(x), prec + 1, mode)
      rg == RoundTo(x.neg, x.dig, One, CoefExp(x), IF prec = 0 THEN 1 ELSE prec, mode)
      \* %f rounds at the FIXED position 10^-prec: formulated independently, by integer division at that position
      rf == FixedRound(x.neg, x.dig, CoefExp(x), -prec, mode)
  IN x.form # "finite" \/
     ( /\ we.out = "ok" /\ SameValue(we.d, re)
       /\ wg.out = "ok" /\ SameValue(wg.d, rg)
       /\ wf.out = "ok" /\ SameValue(wf.d, rf) )

Init == i = 0
Next == \E c \in {2 * i + 1, 2 * i + 2} : c < Total /\ i' = c
Spec == Init /\ [][Next]_i
Inv == LET x == X(i \div 6) IN RoundTrip(x) /\ Rounded(x, i % 6)
=============================================================================
