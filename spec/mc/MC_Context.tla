------------------------------ MODULE MC_Context ------------------------------
(***************************************************************************)
(* (E) for C19: package context as a state machine over three registers    *)
(* and one Context (DecContext's apply-then-operate semantics, the latch    *)
(* as a variable).  Properties (all as action properties / invariants):     *)
(*   Latched     while the latch is set, operations change nothing          *)
(*   FirstWins   the latch is set only by a NaN-producing operation and is  *)
(*               never overwritten; only Err clears it                      *)
(*   ErrOnce     Err returns the latch exactly once                         *)
(*   Rounded     a result whose receiver is distinct from the operands is   *)
(*               the exact result rounded ONCE to the context's precision   *)
(*               and mode, whatever attributes the receiver had             *)
(***************************************************************************)
EXTENDS DecContext, TLC
CONSTANT Depth
VARIABLES cregs, ctx, clast, cdepth
cvars == <<cregs, ctx, clast, cdepth>>
MinExpV == IFromInt(-20)
MaxExpV == IFromInt(20)
CReg == {"a", "b", "c"}
Vals == { MkDec("zero", FALSE, Zero, IZero, 0, 0, Exact), MkDec("zero", TRUE, Zero, IZero, 3, 2, Exact),
          MkDec("finite", FALSE, FromInt(15), IFromInt(1), 2, 0, Exact), MkDec("finite", TRUE, FromInt(249), IFromInt(1), 3, 4, Exact),
          MkDec("inf", FALSE, Zero, IZero, 0, 0, Exact), MkDec("inf", TRUE, Zero, IZero, 5, 3, Exact) }

CInit == /\ cregs \in [CReg -> Vals] /\ ctx = CtxInit(2, 0) /\ clast = [op |-> "init"] /\ cdepth = 0

Apply(op, z, args, F(_)) ==                    \* F: applied receiver -> outcome
  IF ctx.err THEN /\ UNCHANGED <<cregs, ctx>> /\ clast' = [op |-> op, z |-> z, args |-> args, noop |-> TRUE, nan |-> FALSE]
  ELSE LET zA == CtxApply(ctx, cregs[z])
           w == F(zA)
       IN /\ cregs' = [cregs EXCEPT ![z] = w.d]
          /\ ctx' = [ctx EXCEPT !.err = (w.out = "nan")]
          /\ clast' = [op |-> op, z |-> z, args |-> args, noop |-> FALSE, nan |-> w.out = "nan"]

Arg(r, z, zA) == IF r = z THEN zA ELSE cregs[r]
CBin(op, G(_, _, _)) == \E z, x, y \in CReg : Apply(op, z, <<x, y>>, LAMBDA zA : G(zA, Arg(x, z, zA), Arg(y, z, zA)))
CUn(op, G(_, _)) == \E z, x \in CReg : Apply(op, z, <<x>>, LAMBDA zA : G(zA, Arg(x, z, zA)))
CSet == \E z, x \in CReg : IF ctx.err THEN /\ UNCHANGED <<cregs, ctx>> /\ clast' = [op |-> "Set", z |-> z, args |-> <<x>>, noop |-> TRUE, nan |-> FALSE]
                           ELSE /\ cregs' = [cregs EXCEPT ![z] = CtxSet(ctx, cregs[x])] /\ UNCHANGED ctx
                                /\ clast' = [op |-> "Set", z |-> z, args |-> <<x>>, noop |-> FALSE, nan |-> FALSE]
CErr == /\ ctx' = [ctx EXCEPT !.err = FALSE] /\ UNCHANGED cregs /\ clast' = [op |-> "Err", ret |-> ctx.err]
CSetPrec == \E p \in {1, 3} : /\ ctx' = [ctx EXCEPT !.prec = p] /\ UNCHANGED cregs /\ clast' = [op |-> "CtxSetPrec"]
CSetMode == \E m \in {0, 2, 4} : /\ ctx' = [ctx EXCEPT !.mode = m] /\ UNCHANGED cregs /\ clast' = [op |-> "CtxSetMode"]

CNext == /\ cdepth < Depth /\ cdepth' = cdepth + 1
         /\ (CBin("Add", OpAdd) \/ CBin("Sub", OpSub) \/ CBin("Mul", OpMul) \/ CBin("Quo", OpQuo) \/ CUn("Sqrt", OpSqrt) \/ CUn("Neg", OpNeg)
             \/ CSet \/ CErr \/ CSetPrec \/ CSetMode)
CSpec == CInit /\ [][CNext]_cvars

IsOp == "z" \in DOMAIN clast'
Latched   == [][(ctx.err /\ IsOp) => (cregs' = cregs /\ ctx' = ctx /\ clast'.noop)]_cvars
FirstWins == [][(ctx'.err /\ ~ctx.err) => (IsOp /\ clast'.nan)]_cvars
OnlyErrClears == [][(ctx.err /\ ~ctx'.err) => clast'.op = "Err"]_cvars
ErrOnce   == [][clast'.op = "Err" => (clast'.ret = ctx.err /\ ~ctx'.err)]_cvars
(* distinct receiver: the result has the context's precision and mode and is a single rounding of the exact result: *)
(* it equals the same operation performed on a FRESH receiver with the context's attributes                         *)
Fresh == MkDec("zero", FALSE, Zero, IZero, ctx.prec, ctx.mode, Exact)
Rounded == [][(IsOp /\ ~clast'.noop /\ ~clast'.nan /\ clast'.op \in {"Add", "Sub", "Mul", "Quo"} /\ clast'.z \notin {clast'.args[1], clast'.args[2]}) =>
                LET x == cregs[clast'.args[1]]  y == cregs[clast'.args[2]]
                    w == CASE clast'.op = "Add" -> OpAdd(Fresh, x, y) [] clast'.op = "Sub" -> OpSub(Fresh, x, y)
                           [] clast'.op = "Mul" -> OpMul(Fresh, x, y) [] OTHER -> OpQuo(Fresh, x, y)
                IN cregs'[clast'.z] = w.d]_cvars
AllWF == \A r \in CReg : WellFormed(cregs[r])
CView == <<cregs, ctx>>
=============================================================================
