----------------------------- MODULE MC_CoreSim -----------------------------
(* (G) spec -> code: TLC simulates DecimalSystem and prints every action label; the labels of one behaviour *)
(* are one program for the executor.  Same constants as MC_Core.                                            *)
EXTENDS MC_CoreConsts
=============================================================================
