INIT SInit
NEXT SNext
INVARIANT PrintLabel
INVARIANT AllWellFormed
CONSTANTS
  MinExp <- MinExpV
  MaxExp <- MaxExpV
  MaxPrec = 2147483647
  Reg <- RegV
  Lits <- LitsV
  PrecPool <- PrecPoolV
  SmallInts <- SmallIntsV
CHECK_DEADLOCK FALSE
