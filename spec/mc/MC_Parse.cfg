SPECIFICATION Spec
INVARIANT Inv
CONSTANTS
  MinExp <- MinExpV
  MaxExp <- MaxExpV
  MaxPrec = 2147483647
  WS = 1
  DWg = 2
  LMax = 4
CHECK_DEADLOCK FALSE
