------------------------------ MODULE MC_Special ------------------------------
(***************************************************************************)
(* (E) for C04: the operational special-value dispatch of DecOps (one       *)
(* disjunct per branch of the code) equals the DECLARATIVE IEEE-754 table,  *)
(* for every operation x operand class {-Inf,-f,-0,+0,+f,+Inf}^k x mode,    *)
(* with finite magnitudes {tiny, 1.5, huge} so that over/underflow          *)
(* interacts.  Declaratively, with each operand as an extended real         *)
(* (sign, class):                                                           *)
(*   invalid  <=>  Inf-Inf, 0*Inf, 0/0, Inf/Inf (and the FMA forms)         *)
(*   product/quotient sign = XOR;  x/0, Inf*x -> Inf;  x/Inf -> 0           *)
(*   exact zero sum: like signs keep the sign, else +0 (-0 under            *)
(*   ToNegativeInf)                                                         *)
(***************************************************************************)
EXTENDS DecSqrt, TLC
VARIABLES i
MinExpV == IFromInt(-5)
MaxExpV == IFromInt(5)

Vals == << [form |-> "inf", neg |-> TRUE, dig |-> Zero, exp |-> IZero], [form |-> "finite", neg |-> TRUE, dig |-> FromInt(15), exp |-> IFromInt(1)],
           [form |-> "finite", neg |-> TRUE, dig |-> FromInt(2), exp |-> IFromInt(-5)], [form |-> "finite", neg |-> TRUE, dig |-> FromInt(9), exp |-> IFromInt(5)],
           [form |-> "zero", neg |-> TRUE, dig |-> Zero, exp |-> IZero], [form |-> "zero", neg |-> FALSE, dig |-> Zero, exp |-> IZero],
           [form |-> "finite", neg |-> FALSE, dig |-> FromInt(15), exp |-> IFromInt(1)], [form |-> "finite", neg |-> FALSE, dig |-> FromInt(2), exp |-> IFromInt(-5)],
           [form |-> "finite", neg |-> FALSE, dig |-> FromInt(9), exp |-> IFromInt(5)], [form |-> "inf", neg |-> FALSE, dig |-> Zero, exp |-> IZero] >>
NV == Len(Vals)
D(k) == LET v == Vals[k] IN MkDec(v.form, v.neg, v.dig, v.exp, 2, 0, Exact)
Total == NV * NV * NV * 6

NaNV == [cls |-> "nan", neg |-> FALSE]
(* extended-real reasoning about the class of a value *)
IsInfV(x) == x.form = "inf"
IsZeroV(x) == x.form = "zero"
Sgn(x) == IF x.neg THEN -1 ELSE 1

(* declarative expectations for z = x op y: "nan", or a record [form-class, neg] where the class of a finite result is left to C01 *)
DeclMul(x, y) == IF (IsZeroV(x) /\ IsInfV(y)) \/ (IsInfV(x) /\ IsZeroV(y)) THEN NaNV
                 ELSE [cls |-> IF IsInfV(x) \/ IsInfV(y) THEN "inf" ELSE IF IsZeroV(x) \/ IsZeroV(y) THEN "zero" ELSE "any", neg |-> x.neg # y.neg]
DeclQuo(x, y) == IF (IsZeroV(x) /\ IsZeroV(y)) \/ (IsInfV(x) /\ IsInfV(y)) THEN NaNV
                 ELSE [cls |-> IF IsInfV(x) \/ (IsZeroV(y) /\ ~IsZeroV(x)) THEN "inf" ELSE IF IsZeroV(x) \/ IsInfV(y) THEN "zero" ELSE "any", neg |-> x.neg # y.neg]
(* sum of two extended reals given as [inf?, zero?, neg] *)
DeclSum(xinf, xzero, xneg, yinf, yzero, yneg, mode) ==
  IF xinf /\ yinf /\ xneg # yneg THEN NaNV
  ELSE IF xinf THEN [cls |-> "inf", neg |-> xneg] ELSE IF yinf THEN [cls |-> "inf", neg |-> yneg]
  ELSE IF xzero /\ yzero THEN [cls |-> "zero", neg |-> IF xneg = yneg THEN xneg ELSE mode = ToNegativeInf]
  ELSE [cls |-> "any", neg |-> FALSE]

Matches(w, decl) ==
  IF decl.cls = "nan" THEN w.out = "nan"
  ELSE /\ w.out = "ok"
       /\ (decl.cls = "inf" => w.d.form = "inf" /\ w.d.neg = decl.neg /\ w.d.acc = Exact)
       /\ (decl.cls = "zero" => w.d.form = "zero" /\ w.d.neg = decl.neg /\ w.d.acc = Exact)

Holds(n) ==
  LET mode == n % 6
      x == D(1 + ((n \div 6) % NV))
      y == D(1 + ((n \div (6 * NV)) % NV))
      u == D(1 + ((n \div (6 * NV * NV)) % NV))
      z == MkDec("zero", FALSE, Zero, IZero, 2, mode, Exact)
      pm == DeclMul(x, y)
  IN /\ Matches(OpAdd(z, x, y), DeclSum(IsInfV(x), IsZeroV(x), x.neg, IsInfV(y), IsZeroV(y), y.neg, mode))
     /\ Matches(OpSub(z, x, y), DeclSum(IsInfV(x), IsZeroV(x), x.neg, IsInfV(y), IsZeroV(y), ~y.neg, mode))
     /\ Matches(OpMul(z, x, y), pm)
     /\ Matches(OpQuo(z, x, y), DeclQuo(x, y))
     /\ (OpAdd(z, x, y).out = "nan") = InvalidAdd(x, y, FALSE) /\ (OpSub(z, x, y).out = "nan") = InvalidAdd(x, y, TRUE)
     /\ (OpMul(z, x, y).out = "nan") = InvalidMul(x, y) /\ (OpQuo(z, x, y).out = "nan") = InvalidQuo(x, y)
     /\ (OpFMA(z, x, y, u).out = "nan") = InvalidFMA(x, y, u)
     \* FMA = the sum of the (exact, extended-real) product and u
     /\ Matches(OpFMA(z, x, y, u),
                IF pm.cls = "nan" THEN NaNV
                ELSE DeclSum(pm.cls = "inf", pm.cls = "zero", pm.neg, IsInfV(u), IsZeroV(u), u.neg, mode))
     \* sqrt: negative (non-zero) -> nan; +-0 -> +-0; +Inf -> +Inf
     /\ LET s == OpSqrt(z, x) IN IF ~IsZeroV(x) /\ x.neg THEN s.out = "nan"
                                  ELSE s.out = "ok" /\ (x.form # "finite" => s.d.form = x.form /\ s.d.neg = x.neg)
     \* every non-NaN result is a well-formed Decimal; results that leave [MinExp, MaxExp] are zeros / infinities
     /\ \A w \in {OpAdd(z, x, y), OpSub(z, x, y), OpMul(z, x, y), OpQuo(z, x, y), OpFMA(z, x, y, u)} : WellFormed(w.d)
Init == i = 0
Next == \E c \in {2 * i + 1, 2 * i + 2} : c < Total /\ i' = c
Spec == Init /\ [][Next]_i
Inv == Holds(i)
=============================================================================
