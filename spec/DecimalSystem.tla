---------------------------- MODULE DecimalSystem ----------------------------
(***************************************************************************)
(* The library as a state machine: a set of Decimal variables (registers), *)
(* one action per public call, the action alphabet being the vocabulary of *)
(* programs and trace events.  Used in two ways:                           *)
(*  (E) mc/MC_Core: bounded model checking of the state invariants         *)
(*      (every reachable register well formed = C08; attribute stickiness  *)
(*      and operand immutability as action properties = C09);              *)
(*  (G) simulation: TLC random walks print the action labels, which ARE    *)
(*      programs; the executor runs them on the real library and the       *)
(*      trace specification validates the recorded events (spec -> code).  *)
(***************************************************************************)
EXTENDS DecSqrt, TLC, Json

CONSTANTS Reg,          \* register names (strings)
          Lits,         \* literal pool: sequence of [neg, dig (string), exp (Int), form]
          PrecPool,     \* precisions used by SetPrec / literals
          SmallInts     \* pool for SetInt64

VARIABLES regs,         \* Reg -> Dec
          last          \* label of the last action (a program step), with nan |-> BOOLEAN

svars == <<regs, last>>

SInit == /\ regs = [r \in Reg |-> ZeroValue]
         /\ last = [op |-> "Reset"]

Write(z, w, lbl) ==
  /\ regs' = [regs EXCEPT ![z] = w.d]
  /\ last' = lbl

LitDec(i, p, m) ==
  LET lt == Lits[i]
  IN IF lt.form = "finite"
     THEN LET d == StripTZ(FromStr(lt.dig))
          IN MkDec("finite", lt.neg, d, IFromInt(lt.exp), MaxI(p, Len(FromStr(lt.dig))), m, Exact)
     ELSE MkDec(lt.form, lt.neg, Zero, IZero, p, m, Exact)

(* set-up action: attributes and a literal (the drivers' Load) *)
ALoad == \E z \in Reg, i \in 1..Len(Lits) : LET p == CHOOSE q \in PrecPool : \A q2 \in PrecPool : q <= q2   m == i % 6 IN   \* attributes are varied by SetPrec/SetMode: keeps Load from dominating random walks
  /\ regs' = [regs EXCEPT ![z] = LitDec(i, p, m)]
  /\ last' = [op |-> "Load", z |-> z,
              s |-> (IF Lits[i].neg THEN "-" ELSE "") \o (IF Lits[i].form = "finite" THEN "0." \o Lits[i].dig \o "e" \o ToString(Lits[i].exp)
                                                         ELSE IF Lits[i].form = "inf" THEN "Inf" ELSE "0"),
              p |-> IF Lits[i].form = "finite" THEN MaxI(p, Len(FromStr(Lits[i].dig))) ELSE p, m |-> m]

ABin(op, F(_, _, _)) == \E z, x, y \in Reg :
  Write(z, F(regs[z], regs[x], regs[y]), [op |-> op, z |-> z, x |-> x, y |-> y])
AFMA == \E z, x, y, u \in Reg :
  Write(z, OpFMA(regs[z], regs[x], regs[y], regs[u]), [op |-> "FMA", z |-> z, x |-> x, y |-> y, u |-> u])
AUn(op, F(_, _)) == \E z, x \in Reg : Write(z, F(regs[z], regs[x]), [op |-> op, z |-> z, x |-> x])
ASetPrec == \E z \in Reg, p \in PrecPool \cup {0} : Write(z, OpSetPrec(regs[z], p), [op |-> "SetPrec", z |-> z, p |-> p])
ASetMode == \E z \in Reg, m \in Modes : Write(z, OpSetMode(regs[z], m), [op |-> "SetMode", z |-> z, m |-> m])
ASetInf == \E z \in Reg, s \in BOOLEAN : Write(z, OpSetInf(regs[z], s), [op |-> "SetInf", z |-> z, neg |-> s])
ASetInt64 == \E z \in Reg, v \in SmallInts :
  Write(z, OpSetInt64(regs[z], v < 0, FromInt(IF v < 0 THEN -v ELSE v)), [op |-> "SetInt64", z |-> z, i |-> ToString(v)])
ASetMantExp == \E z, x \in Reg, e \in {-3, -1, 0, 1, 2, 2147483647, -2147483647} :
  Write(z, OpSetMantExp(regs[z], regs[x], IFromInt(e)), [op |-> "SetMantExp", z |-> z, x |-> x, e |-> ToString(e)])
AMantExp == \E z, x \in Reg : Write(z, OpMantExp(regs[z], regs[x]), [op |-> "MantExp", z |-> z, x |-> x])
ANew == \E z \in Reg : /\ regs' = [regs EXCEPT ![z] = ZeroValue] /\ last' = [op |-> "New", z |-> z]
(* NewDecimal: a fresh Decimal (precision 34, ToNearestEven) = v * 10^e, saturating; e is any int *)
ANewDecimal == \E z \in Reg, v \in SmallInts, e \in {0, 5, -3, 2147483647, 2147483645, -2147483647} :
  Write(z, OpNewDecimal(v < 0, FromInt(IF v < 0 THEN -v ELSE v), IFromInt(e)), [op |-> "NewDecimal", z |-> z, i |-> ToString(v), e |-> ToString(e)])
(* x -> GobEncode -> GobDecode into z: everything is copied into a zero-precision receiver, otherwise the value is *)
(* rounded to z's precision and mode                                                                              *)
AGob == \E z, x \in Reg :
  LET zz == regs[z]  xx == regs[x]
      w  == IF zz.prec = 0 THEN Outcome("ok", xx, {}, {"C17"}) ELSE Ok(SetLike(xx.neg, xx, zz.prec, zz.mode), zz.prec, zz.mode, {"C17"})
  IN Write(z, w, [op |-> "GobRoundTrip", z |-> z, x |-> x])
(* observers leave the state unchanged *)
(* (conversions only of values with a moderate exponent: the specification computes them exactly) *)
ConvSmall(d) == d.form # "finite" \/ Len(d.exp.mag) <= 3
AObs == \E x, y \in Reg : /\ UNCHANGED regs
                          /\ last' \in {[op |-> "Cmp", x |-> x, y |-> y], [op |-> "Preds", x |-> x], [op |-> "IsInt", x |-> x], [op |-> "BitsExp", x |-> x]}
                                       \cup (IF ConvSmall(regs[x]) THEN {[op |-> "Int64", x |-> x], [op |-> "Uint64", x |-> x], [op |-> "Float64", x |-> x], [op |-> "Float32", x |-> x]} ELSE {})

SNext == \/ ALoad \/ ABin("Add", OpAdd) \/ ABin("Sub", OpSub) \/ ABin("Mul", OpMul) \/ ABin("Quo", OpQuo) \/ AFMA
         \/ AUn("Sqrt", OpSqrt) \/ AUn("Neg", OpNeg) \/ AUn("Abs", OpAbs) \/ AUn("Set", OpSet) \/ AUn("Copy", OpCopy)
         \/ ASetPrec \/ ASetMode \/ ASetInf \/ ASetInt64 \/ ASetMantExp \/ AMantExp \/ ANew \/ ANewDecimal \/ AGob \/ AObs

SSpec == SInit /\ [][SNext]_svars

(* C08: every reachable register is well formed *)
AllWellFormed == \A r \in Reg : WellFormed(regs[r])

(* C09 as action properties: precision changes only from 0 (or by the operations documented to set it), *)
(* the mode only by SetMode / the attribute-copying operations; registers that are not the receiver keep everything *)
AttrOps == {"SetPrec", "Copy", "SetMantExp", "MantExp", "Load", "New", "NewDecimal"}
PrecSticky == [][\A r \in Reg : regs'[r].prec # regs[r].prec =>
                   /\ "z" \in DOMAIN last' /\ r = last'.z
                   /\ (regs[r].prec = 0 \/ last'.op \in AttrOps)]_svars
ModeSticky == [][\A r \in Reg : regs'[r].mode # regs[r].mode =>
                   /\ "z" \in DOMAIN last' /\ r = last'.z
                   /\ \/ last'.op \in (AttrOps \ {"SetPrec"}) \cup {"SetMode"}
                      \/ last'.op = "GobRoundTrip" /\ regs[r].prec = 0]_svars       \* decoding into a zero-precision receiver copies everything
OperandsUntouched == [][\A r \in Reg : ("z" \notin DOMAIN last' \/ r # last'.z) => regs'[r] = regs[r]]_svars

(* (G): printing the label turns a behaviour into a program *)
PrintLabel == PrintT("SIM " \o ToJson([lvl |-> TLCGet("level"), step |-> last]))
=============================================================================
