------------------------------- MODULE DecCore -------------------------------
(***************************************************************************)
(* The value domain of db47h/decimal and the one rounding function that    *)
(* every arithmetic result goes through.                                   *)
(*                                                                         *)
(* Two layers:                                                             *)
(*   operational  RoundTo(neg, N, D, e, p, mode): digit generation,        *)
(*                rounding digit, sticky, increment, carry, range checks   *)
(*                (shaped like setExpAndRound/round in decimal.go)         *)
(*   declarative  CorrectlyRounded(...): the statement of property C01/C02 *)
(*                by cross-multiplication only (no division, no digits)    *)
(* mc/MC_Round lets TLC check that the first satisfies the second.         *)
(***************************************************************************)
EXTENDS BigInt

CONSTANTS MinExp, MaxExp         \* BigInt; int32 limits for the real library, +-2..4 in bounded models

(* rounding modes, numbered as in stdlib.go *)
ToNearestEven == 0
ToNearestAway == 1
ToZero        == 2
AwayFromZero  == 3
ToNegativeInf == 4
ToPositiveInf == 5
Modes == 0..5

Below == -1
Exact == 0
Above == 1

(***************************************************************************)
(* A Decimal, abstractly.  For form = "finite":                            *)
(*    value = (-1)^neg * 0.d1 d2 ... dk * 10^exp,  dig = d1...dk as an     *)
(*    integer with d1 # 0 and dk # 0 (so k = MinPrec), i.e.                *)
(*    value = dig * 10^(exp - k).                                          *)
(* Zeros and infinities carry only a sign: dig = 0, exp = 0.               *)
(* No buffers, capacities or pointers: that the implementation behaves as  *)
(* if there were none is property C10.                                     *)
(***************************************************************************)
MkDec(form, neg, dig, exp, prec, mode, acc) ==
  [form |-> form, neg |-> neg,
   dig |-> IF form = "finite" THEN dig ELSE Zero,
   exp |-> IF form = "finite" THEN exp ELSE IZero,
   prec |-> prec, mode |-> mode, acc |-> acc]

ZeroValue == MkDec("zero", FALSE, Zero, IZero, 0, ToNearestEven, Exact)   \* Go's zero value

IsFinite(d) == d.form = "finite"
MinPrecOf(d) == IF d.form = "finite" THEN Len(d.dig) ELSE 0

(* well-formedness of an abstract Decimal: property C08 in abstract terms *)
WellFormed(d) ==
  /\ d.form \in {"zero", "finite", "inf"}
  /\ d.neg \in BOOLEAN /\ d.mode \in Modes /\ d.acc \in {Below, Exact, Above}
  /\ d.prec \in Nat
  /\ d.form = "finite" =>
       /\ IsNat(d.dig) /\ Len(d.dig) >= 1 /\ d.dig[1] # 0
       /\ d.prec >= 1 /\ Len(d.dig) <= d.prec
       /\ ILe(MinExp, d.exp) /\ ILe(d.exp, MaxExp)
  /\ d.form # "finite" => d.dig = Zero /\ d.exp = IZero

(***************************************************************************)
(* Exact magnitudes are rationals N/D * 10^e  (N, D BigNat > 0, e BigInt). *)
(***************************************************************************)
(* t with 10^(t-1) <= N/D < 10^t *)
MagOf(N, D) ==
  LET k  == Len(N) - Len(D)
      ge == IF k >= 0 THEN Ge(N, Shl(D, k)) ELSE Ge(Shl(N, -k), D)
  IN IF ge THEN k + 1 ELSE k

(* does the mode round the magnitude up when something was discarded? *)
RoundsUp(mode, neg, rd, sticky, codd) ==
  CASE mode = ToZero        -> FALSE
    [] mode = AwayFromZero  -> TRUE
    [] mode = ToNegativeInf -> neg
    [] mode = ToPositiveInf -> ~neg
    [] mode = ToNearestAway -> rd >= 5
    [] mode = ToNearestEven -> rd > 5 \/ (rd = 5 /\ (sticky \/ codd))

(* The result of rounding: [form, neg, dig, exp, acc]  (no attributes)    *)
(* `why` names the branch taken (coverage bookkeeping only; never compared) *)
ResW(form, neg, dig, exp, acc, why) ==
  [form |-> form, neg |-> neg,
   dig |-> IF form = "finite" THEN dig ELSE Zero,
   exp |-> IF form = "finite" THEN exp ELSE IZero, acc |-> acc, why |-> why]
Res(form, neg, dig, exp, acc) == ResW(form, neg, dig, exp, acc, "special")

(***************************************************************************)
(* RoundTo: (-1)^neg * N/D * 10^e rounded once to p >= 1 digits.           *)
(***************************************************************************)
RoundTo(neg, N, D, e, p, mode) ==
  LET t  == MagOf(N, D)
      E0 == IAddInt(e, t)                        \* 10^(E0-1) <= |x| < 10^E0
  IN IF ILt(E0, MinExp) THEN ResW("zero", neg, Zero, IZero, IF neg THEN Above ELSE Below, "underflow")
     ELSE IF IGt(E0, MaxExp) THEN ResW("inf", neg, Zero, IZero, IF neg THEN Below ELSE Above, "overflow")
     ELSE IF D = One /\ Len(N) - TrailingZeros(N) <= p
          THEN ResW("finite", neg, StripTZ(N), E0, Exact, "fits")          \* fits: stored unchanged
     ELSE IF D # One /\ p > Len(N) + 4 * Len(D) + 1 /\ Mod(Pow10(4 * Len(D)), D) = Zero
          \* D = 2^a 5^b and the precision holds the whole terminating expansion: exact, whatever p is
          \* (this is what keeps precisions near MaxPrec computable: no p-digit quotient is ever built)
          THEN ResW("finite", neg, StripTZ(Mul(N, Div(Pow10(4 * Len(D)), D))), E0, Exact, "fits")
     ELSE
       LET s  == p + 1 - t                       \* scale so that the quotient has exactly p+1 digits
           QR == IF s >= 0 THEN DivMod(Shl(N, s), D) ELSE DivMod(N, Shl(D, -s))
           Q  == QR[1]
           rd == DigitAt(Q, 0)                   \* rounding digit
           sticky == Len(QR[2]) > 0              \* anything beyond it
           c  == Shr(Q, 1)                       \* the p-digit truncated coefficient
           exact == rd = 0 /\ ~sticky
           inc == ~exact /\ RoundsUp(mode, neg, rd, sticky, ~IsEven(c))
           c1 == IF inc THEN Add(c, One) ELSE c
           carry == Len(c1) > p                  \* 99..9 + 1
           E1 == IF carry THEN IAddInt(E0, 1) ELSE E0
           acc == IF exact THEN Exact ELSE IF inc # neg THEN Above ELSE Below
           why == IF exact THEN "exact"
                  ELSE (IF rd = 5 /\ ~sticky THEN "tie-" ELSE IF rd = 0 THEN "stickyonly-" ELSE "")
                       \o (IF inc THEN (IF carry THEN "carry" ELSE "up") ELSE "down")
       IN IF IGt(E1, MaxExp) THEN ResW("inf", neg, Zero, IZero, acc, "carry-overflow")
          ELSE ResW("finite", neg, StripTZ(c1), E1, acc, why)

(* the exact value of a finite Decimal as N * 10^e *)
CoefExp(d) == ISub(d.exp, IFromInt(Len(d.dig)))      \* value = dig * 10^CoefExp

(***************************************************************************)
(* Declarative layer.  x = N/D * 10^e > 0 is the exact magnitude, r the    *)
(* stored result [form, neg, dig, exp, acc].  Comparisons of               *)
(* a * 10^i  with  N/D * 10^e  are done on integers:                       *)
(*    a * D * 10^i  ?  N * 10^e                                            *)
(***************************************************************************)
(* compare  a * 10^i  with  N/D * 10^e ; i, e BigInt;  returns -1/0/1 *)
CmpScaled(a, i, N, D, e) ==
  LET d  == ISub(i, e)                      \* shift the smaller exponent away
      l  == Mul(a, D)
  IN IF d.neg THEN Cmp(l, Shl(N, IToInt(IMk(FALSE, d.mag))))
     ELSE Cmp(Shl(l, IToInt(d)), N)

(* twice the exact value versus the sum of two grid points a*10^i + b*10^i *)
CmpTwiceScaled(ab, i, N, D, e) == CmpScaled(ab, i, Mul(N, Two), D, e)

(* r.dig padded to a p-digit coefficient, with its unit exponent q: |r| = c * 10^q *)
CoefP(r, p) == Shl(r.dig, p - Len(r.dig))
UnitExp(r, p) == ISub(r.exp, IFromInt(p))

(* Is the finite stored magnitude v = c*10^q the correct rounding of x?            *)
(* Neighbours on the p-digit grid: Succ(v) = (c+1)*10^q (also right when c+1 =     *)
(* 10^p); Pred(v) = (c-1)*10^q, except below a power of ten, c = 10^(p-1), where   *)
(* the grid is ten times finer: Pred(v) = (10c - 1) * 10^(q-1).                    *)
CorrectlyRoundedFinite(neg, N, D, e, p, mode, r) ==
  LET c   == CoefP(r, p)
      q   == UnitExp(r, p)
      low == c = Pow10(p - 1)                              \* v is a power of ten
      \* comparisons of grid points with x
      cV    == CmpScaled(c, q, N, D, e)                    \* v ? x
      cSucc == CmpScaled(Add(c, One), q, N, D, e)          \* Succ(v) ? x
      cPred == IF low THEN CmpScaled(Sub(Shl(c, 1), One), IAddInt(q, -1), N, D, e)
               ELSE CmpScaled(Sub(c, One), q, N, D, e)     \* Pred(v) ? x
      \* midpoints: (v + Succ(v)) ? 2x   and  (v + Pred(v)) ? 2x
      mSucc == CmpTwiceScaled(Add(Mul(c, Two), One), q, N, D, e)          \* (2c+1)*10^q ? 2x
      mPred == IF low THEN CmpTwiceScaled(Sub(Mul(Shl(c, 1), Two), One), IAddInt(q, -1), N, D, e)   \* (20c-1)*10^(q-1) ? 2x
               ELSE CmpTwiceScaled(Sub(Mul(c, Two), One), q, N, D, e)     \* (2c-1)*10^q ? 2x
      down == mode = ToZero \/ (mode = ToNegativeInf /\ ~neg) \/ (mode = ToPositiveInf /\ neg)
      up   == mode = AwayFromZero \/ (mode = ToNegativeInf /\ neg) \/ (mode = ToPositiveInf /\ ~neg)
  IN /\ Len(r.dig) <= p
     /\ CASE down -> cV <= 0 /\ cSucc > 0                 \* v <= x < Succ(v)
          [] up   -> cPred < 0 /\ cV >= 0                  \* Pred(v) < x <= v
          [] mode = ToNearestAway -> mPred <= 0 /\ mSucc > 0       \* ties go up (away from zero)
          [] mode = ToNearestEven ->
               /\ mPred <= 0 /\ mSucc >= 0
               /\ (mSucc = 0 => IsEven(c))                          \* tie with the upper neighbour: v must be the even one
               /\ (mPred = 0 => IsEven(c) \/ low)                   \* tie with the lower one (a power of ten is 10^p there: even)

(* C02 for a finite stored magnitude: accuracy = sign(stored - exact) *)
AccTruthfulFinite(neg, N, D, e, p, r) ==
  LET cV == CmpScaled(CoefP(r, p), UnitExp(r, p), N, D, e)
  IN r.acc = (IF cV < 0 THEN Below ELSE IF cV > 0 THEN Above ELSE Exact) * (IF neg THEN -1 ELSE 1)

(* statement of C01 for one rounding, including the range clauses (value, sign, form only) *)
CorrectValue(neg, N, D, e, p, mode, r) ==
  LET t == MagOf(N, D)
      E0 == IAddInt(e, t)
  IN /\ r.neg = neg
     /\ IF ILt(E0, MinExp)                               \* |x| < 10^(MinExp-1): a zero of that sign
        THEN r.form = "zero"
        ELSE IF r.form = "inf"                           \* allowed iff the rounded magnitude reaches 10^MaxExp
        THEN \/ IGt(E0, MaxExp)
             \/ /\ E0 = MaxExp                           \* x rounds up to 10^MaxExp = 0.1 * 10^(MaxExp+1)
                /\ LET rr == Res("finite", neg, One, IAddInt(MaxExp, 1), Exact)
                   IN CorrectlyRoundedFinite(neg, N, D, e, p, mode, rr)
        ELSE /\ r.form = "finite"
             /\ ILe(MinExp, r.exp) /\ ILe(r.exp, MaxExp)
             /\ r.exp \in {E0, IAddInt(E0, 1)}           \* (implied by the next line; keeps its shifts small)
             /\ CorrectlyRoundedFinite(neg, N, D, e, p, mode, r)

(* statement of C02 for one rounding: Acc = sign(stored - exact), overflow/underflow relative to the exact value *)
AccTruthful(neg, N, D, e, p, r) ==
  CASE r.form = "zero" -> r.acc = (IF neg THEN Above ELSE Below)        \* exact value is non-zero
    [] r.form = "inf"  -> r.acc = (IF neg THEN Below ELSE Above)
    [] OTHER -> LET E0 == IAddInt(e, MagOf(N, D))
                IN r.exp \in {E0, IAddInt(E0, 1), IAddInt(E0, -1)} => AccTruthfulFinite(neg, N, D, e, p, r)

CorrectlyRounded(neg, N, D, e, p, mode, r) ==
  CorrectValue(neg, N, D, e, p, mode, r) /\ AccTruthful(neg, N, D, e, p, r)

(***************************************************************************)
(* Order on values (property C16): sign of x - y on the extended reals.    *)
(***************************************************************************)
Ord(d) == IF d.form = "zero" THEN 0
          ELSE (IF d.form = "inf" THEN 2 ELSE 1) * (IF d.neg THEN -1 ELSE 1)

(* |x| ? |y| for finite x, y: by exponents, then by aligned coefficients *)
CmpMag(x, y) ==
  IF x.exp # y.exp THEN ICmp(x.exp, y.exp)
  ELSE LET lx == Len(x.dig)  ly == Len(y.dig)
       IN IF lx >= ly THEN Cmp(x.dig, Shl(y.dig, lx - ly)) ELSE Cmp(Shl(x.dig, ly - lx), y.dig)

CmpVal(x, y) ==
  LET ox == Ord(x)  oy == Ord(y)
  IN IF ox < oy THEN -1 ELSE IF ox > oy THEN 1
     ELSE IF ox = 1 THEN CmpMag(x, y) ELSE IF ox = -1 THEN CmpMag(y, x) ELSE 0

SameValue(x, y) == x.form = y.form /\ x.neg = y.neg /\ x.dig = y.dig /\ x.exp = y.exp
=============================================================================
