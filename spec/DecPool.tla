------------------------------- MODULE DecPool -------------------------------
(***************************************************************************)
(* The scratch-buffer pool (property C18).  Goroutines share Decimals      *)
(* read-only and write only to their own receivers; the only memory they   *)
(* hand to each other is the pool of scratch mantissas (getDec/putDec in   *)
(* dec.go: Karatsuba temporaries, the normalised divisor and q̂·v of long  *)
(* division, the temporaries of recursive division).                       *)
(*                                                                         *)
(* Design: each goroutine runs a sequence of operations; an operation is a *)
(* properly nested sequence of micro-steps                                 *)
(*     Get(b) ... Use(b) ... Put(b)                                        *)
(* (Use = the kernel loops reading and writing the buffer).  The pool is a *)
(* LIFO free list (the verif build; sync.Pool only makes reuse rarer).     *)
(* Safety: a buffer is used only by its holder, has at most one holder,    *)
(* and a buffer in the free list has none.  EarlyPut names the classic     *)
(* defect (putDec before the last use) so that TLC shows the invariant is  *)
(* not vacuous.                                                            *)
(***************************************************************************)
EXTENDS Integers, Sequences, FiniteSets, DecPoolTrace

CONSTANTS Gor,          \* goroutines
          NBuf,         \* buffers that can exist
          Shape,        \* Gor -> sequence of micro-steps <<kind, slot>>: kind in {"get","use","put"}, slot = local buffer slot
          EarlyPut      \* BOOLEAN: model the defect "put before the last use"

VARIABLES pc,           \* Gor -> position in Shape[g]
          slot,         \* Gor -> (slot -> buffer or 0)
          holder,       \* buffer -> goroutine or "none"
          free,         \* LIFO free list of buffers
          made,         \* number of buffers created so far
          misuse        \* TRUE once a goroutine used a buffer it does not hold

pvars == <<pc, slot, holder, free, made, misuse>>

Buf == 1..NBuf
None == "none"

PInit == /\ pc = [g \in Gor |-> 1]
         /\ slot = [g \in Gor |-> [s \in 1..4 |-> 0]]
         /\ holder = [b \in Buf |-> None]
         /\ free = <<>>
         /\ made = 0
         /\ misuse = FALSE

Step(g) == Shape[g][pc[g]]

Get(g) ==
  /\ pc[g] <= Len(Shape[g]) /\ Step(g)[1] = "get"
  /\ \/ /\ Len(free) > 0                                 \* reuse the most recently put buffer
        /\ LET b == free[Len(free)] IN
             /\ free' = SubSeq(free, 1, Len(free) - 1)
             /\ holder' = [holder EXCEPT ![b] = g]
             /\ slot' = [slot EXCEPT ![g][Step(g)[2]] = b]
        /\ made' = made
     \/ /\ Len(free) = 0 /\ made < NBuf                  \* allocate
        /\ made' = made + 1
        /\ holder' = [holder EXCEPT ![made + 1] = g]
        /\ slot' = [slot EXCEPT ![g][Step(g)[2]] = made + 1]
        /\ free' = free
  /\ pc' = [pc EXCEPT ![g] = @ + 1]
  /\ misuse' = misuse

Use(g) ==
  /\ pc[g] <= Len(Shape[g]) /\ Step(g)[1] = "use"
  /\ misuse' = (misuse \/ holder[slot[g][Step(g)[2]]] # g)
  /\ pc' = [pc EXCEPT ![g] = @ + 1]
  /\ UNCHANGED <<slot, holder, free, made>>

Put(g) ==
  /\ pc[g] <= Len(Shape[g]) /\ Step(g)[1] = "put"
  /\ LET b == slot[g][Step(g)[2]] IN
       /\ holder[b] = g                                    \* put only by the holder
       /\ holder' = [holder EXCEPT ![b] = None]
       /\ free' = Append(free, b)
  /\ pc' = [pc EXCEPT ![g] = @ + 1]
  /\ UNCHANGED <<slot, made, misuse>>

PNext == \E g \in Gor : Get(g) \/ Use(g) \/ Put(g)
PSpec == PInit /\ [][PNext]_pvars

(* safety *)
NoMisuse == ~misuse
FreeHasNoHolder == \A i \in 1..Len(free) : holder[free[i]] = None
FreeDistinct == \A i, j \in 1..Len(free) : i # j => free[i] # free[j]
HeldNotFree == \A b \in Buf : holder[b] # None => \A i \in 1..Len(free) : free[i] # b


(* refinement: the LIFO pool implements the unbounded abstract pool, whose safety invariant is PROVED inductive *)
(* (DecPoolAbs.tla, TLAPS) for any number of goroutines and buffers; TLC checks the refinement on MC_Pool's instances *)
Abs == INSTANCE DecPoolAbs WITH Buf <- Buf,
                                held <- {<<holder[b], b>> : b \in {c \in Buf : holder[c] # None}},
                                free <- {free[i] : i \in 1..Len(free)},
                                made <- 1..made
Refines == Abs!ASpec
=============================================================================
