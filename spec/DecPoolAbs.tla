----------------------------- MODULE DecPoolAbs -----------------------------
(***************************************************************************)
(* The scratch-buffer pool (property C18) without bounds: ANY set of       *)
(* goroutines, ANY set of buffers.  DecPool (the LIFO free list of the     *)
(* verif build, checked by TLC for 2-3 goroutines) refines this module     *)
(* (mc/MC_Pool checks the refinement on its instances); here the safety    *)
(* invariant is proved inductive with TLAPS for every instance.            *)
(*                                                                         *)
(*   held  : set of <<goroutine, buffer>> pairs (who holds what)           *)
(*   free  : buffers in the pool                                           *)
(*   made  : buffers that exist                                            *)
(*                                                                         *)
(* getDec takes a buffer out of the pool or allocates a new one; putDec    *)
(* returns a buffer and only its holder may do so.  Nothing else touches   *)
(* ownership.  Safe == no buffer has two holders and a pooled buffer has   *)
(* none: a goroutine that only uses buffers it holds (NoMisuse, checked on *)
(* the traces of the real pool) never shares scratch memory.               *)
(***************************************************************************)
CONSTANTS Gor, Buf

VARIABLES held, free, made

avars == <<held, free, made>>

TypeOK == /\ held \subseteq (Gor \X Buf)
          /\ free \subseteq Buf
          /\ made \subseteq Buf

AInit == held = {} /\ free = {} /\ made = {}

AGetPooled(g, b) == /\ b \in free
                    /\ held' = held \cup {<<g, b>>}
                    /\ free' = free \ {b}
                    /\ made' = made

AGetNew(g, b) == /\ b \in Buf \ made
                 /\ held' = held \cup {<<g, b>>}
                 /\ made' = made \cup {b}
                 /\ free' = free

APut(g, b) == /\ <<g, b>> \in held
              /\ held' = held \ {<<g, b>>}
              /\ free' = free \cup {b}
              /\ made' = made

ANext == \E g \in Gor, b \in Buf : AGetPooled(g, b) \/ AGetNew(g, b) \/ APut(g, b)

ASpec == AInit /\ [][ANext]_avars

OneHolder == \A g1, g2 \in Gor, b \in Buf : <<g1, b>> \in held /\ <<g2, b>> \in held => g1 = g2
PooledUnheld == \A g \in Gor, b \in Buf : b \in free => <<g, b>> \notin held
Accounted == /\ free \subseteq made
             /\ \A g \in Gor, b \in Buf : <<g, b>> \in held => b \in made

Safe == OneHolder /\ PooledUnheld

IndInv == TypeOK /\ OneHolder /\ PooledUnheld /\ Accounted

(* Safe is proved for every Gor and Buf in proofs/DecPoolAbs_proofs.tla (TLAPS): THEOREM ASpec => []Safe *)
=============================================================================
