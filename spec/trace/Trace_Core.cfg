INIT TraceInit
NEXT TraceNext
INVARIANT Done
POSTCONDITION Consumed
CONSTANTS
  MinExp <- MinExpV
  MaxExp <- MaxExpV
  MaxPrec = 1073741824
  WS = 8
  DWg = 19
  KW = 19
CHECK_DEADLOCK FALSE
