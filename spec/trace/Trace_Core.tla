----------------------------- MODULE Trace_Core -----------------------------
(***************************************************************************)
(* (V) Trace validation: is the event log recorded from the real library   *)
(* a behaviour of the specification?                                       *)
(*                                                                         *)
(* One trace action per public call, reusing the operators of DecOps /     *)
(* DecConv / DecSqrt (they are deterministic given the logged arguments,   *)
(* so validation is linear in the trace length).  Deviations from the      *)
(* textbook trace spec, both deliberate (DESIGN 3.5):                      *)
(*  - adopt and continue: a mismatch is recorded in `bad` (with the        *)
(*    property whose statement the compared field belongs to) and the      *)
(*    model adopts the OBSERVED post-state, so that every later event is   *)
(*    still checked from the state the implementation is really in;        *)
(*  - every event is also checked against the state invariants (canonical  *)
(*    form, operands untouched, unnamed registers untouched).              *)
(* The trace is accepted iff TLC consumes every event and bad = {}.        *)
(***************************************************************************)
EXTENDS DecAlgoPost, Json, TLC, IOUtils

DW == 19                                  \* digits per word of the real library (64-bit build)
DB == Pow10(DW)

MinExpV == Int32Min
MaxExpV == Int32Max

TraceFile == IOEnv.VERIF_TRACE
T == ndJsonDeserialize(TraceFile)

VARIABLES l,      \* position in T
          regs,   \* register name -> Dec (model state = adopted observations)
          dgs,    \* register name -> digest of its last observation
          bad,    \* set of <<event index, property id, kind>>
          cov,    \* coverage counters: branch tag -> number of events
          vres,   \* C10: instance id -> outcome of the first variant of that operation instance
          ctxs,   \* C19: context name -> [prec, mode, err]; err (the latch) is inferred, never logged
          pool    \* C18: scratch buffer -> goroutine holding it (DecPool's holder, restricted to held buffers)

vars == <<l, regs, dgs, bad, cov, vres, ctxs, pool>>

Ev == T[l]

(* a context as the trace specification tracks it: DecContext's record plus `who`, the operation that latched it *)
CtxRec(p, m) == LET c == CtxInit(p, m) IN [prec |-> c.prec, mode |-> c.mode, err |-> c.err, who |-> ""]

(***************************************************************************)
(* Observation -> abstract value, and the canonical-form check (C08)       *)
(***************************************************************************)
WordNats(o) == [i \in 1..Len(o.words) |-> FromStr(o.words[i])]

Canonical(o) ==
  /\ o.bad = ""
  /\ o.form \in {"zero", "finite", "inf"}
  /\ o.mode \in Modes /\ o.acc \in {-1, 0, 1}
  /\ o.form = "finite" =>
       LET ws == WordNats(o)
           N  == ConcatWords(ws, DW)
       IN /\ Len(ws) >= 1
          /\ \A i \in 1..Len(ws) : Lt(ws[i], DB)                      \* every word below the base
          /\ Len(ws[Len(ws)]) = DW                                    \* leading digit non-zero
          /\ o.prec >= 1 /\ Len(N) - TrailingZeros(N) <= o.prec       \* no digit beyond the precision
          /\ o.minprec = Len(N) - TrailingZeros(N)                    \* the getters agree with the raw state
          /\ o.mantexp = o.exp
  /\ o.form # "finite" => o.minprec = 0 /\ o.mantexp = 0

(* A malformed observation has no abstract value: it is adopted as form "bad" (C08 is reported on the event *)
(* that produced it) and every later event that names such a register is skipped, not judged.              *)
(* precisions at or above 2^30 are observed as the sentinel 2^30 = MaxPrec of the model (TLC integers are 32-bit) *)
Modelable(o) == o.prec <= 1073741824
AbsObs(o) ==
  IF ~Canonical(o) \/ ~Modelable(o) THEN MkDec("bad", o.neg, Zero, IZero, o.prec, IF o.mode \in Modes THEN o.mode ELSE 0, 0)
  ELSE IF o.form = "finite"
  THEN LET ws == WordNats(o)
           N  == ConcatWords(ws, DW)
       IN MkDec("finite", o.neg, StripTZ(N), IFromInt(o.exp), o.prec, o.mode, o.acc)
  ELSE MkDec(o.form, o.neg, Zero, IZero, o.prec, o.mode, o.acc)

(***************************************************************************)
(* Generic comparison of one event with the specification's outcome        *)
(***************************************************************************)
Named == DOMAIN Ev.post
Got(r) == AbsObs(Ev.post[r])
Pre(r) == regs[r]

AccOps == {"Add", "Sub", "Mul", "Quo", "FMA", "Set", "SetPrec", "SetInt", "SetInt64", "SetUint64", "SetRat",
           "SetMantExp", "NewDecimal", "Parse10",
           "Ctx.Add", "Ctx.Sub", "Ctx.Mul", "Ctx.Quo", "Ctx.FMA", "Ctx.Set"}       \* the same operations through package context
AccPid(w) == IF Ev.op \in {"FMA", "Ctx.FMA"} THEN {"C02", "C03"}          \* C03: "... rounded once, with truthful accuracy"
             ELSE IF Ev.op \in AccOps THEN {"C02"} ELSE w.pid

Aliased == /\ "z" \in DOMAIN Ev
           /\ \/ ("x" \in DOMAIN Ev /\ Ev.x = Ev.z) \/ ("y" \in DOMAIN Ev /\ Ev.y = Ev.z)
              \/ ("u" \in DOMAIN Ev /\ Ev.u = Ev.z)
              \/ ("x" \in DOMAIN Ev /\ "y" \in DOMAIN Ev /\ Ev.x = Ev.y)
              \/ ("x" \in DOMAIN Ev /\ "u" \in DOMAIN Ev /\ Ev.x = Ev.u)
              \/ ("y" \in DOMAIN Ev /\ "u" \in DOMAIN Ev /\ Ev.y = Ev.u)

(* the property that owns an operation: a panic or a malformed result there also contradicts that property's text *)
HomePid(op) ==
  CASE op \in {"GobEncode", "GobDecode", "GobMutate", "GobRoundTrip", "GobStream"} -> {"C17"}
    [] op \in {"Parse", "SetString", "UnmarshalText", "UnmarshalJSON", "ParseDecimal", "Scan"} -> {"C12"}
    [] op \in {"Text", "Append", "String", "Format", "MarshalText", "MarshalJSON"} -> {"C13"}
    [] op \in {"SetBitsExp", "SetBitsExpSelf", "BitsExp", "MantExp", "SetMantExp"} -> {"C20"}
    [] op \in {"SetFloat64", "SetFloat", "Float64", "Float32", "Float"} -> {"C15"}
    [] op \in {"SetInt", "SetInt64", "SetUint64", "SetRat", "NewDecimal", "Int", "Int64", "Uint64", "Rat", "IsInt"} -> {"C14"}
    [] op \in {"Add", "Sub", "Mul", "Quo", "Set", "SetPrec", "SetPrecMax", "Neg", "Abs"} -> {"C01"}
    [] op \in {"N.mul", "N.sqr", "N.div"} -> {"C06"}
    [] op \in {"Cmp", "Preds"} -> {"C16"}
    [] op = "Sqrt" -> {"C05"}
    [] op = "FMA" -> {"C03"}
    [] OTHER -> {}

(* properties whose own text also fixes the receiver's precision and mode after the call *)
AttrPid == IF Ev.op \in {"GobDecode", "GobMutate", "GobRoundTrip", "GobStream", "SetFloat64", "SetFloat", "SetInt", "SetInt64", "SetUint64", "SetRat",
                         "Parse", "SetString", "UnmarshalText", "UnmarshalJSON", "ParseDecimal", "Scan", "SetBitsExp", "SetBitsExpSelf", "SetMantExp", "MantExp"}
           THEN HomePid(Ev.op) ELSE {}

(* receiver result versus the wanted outcome w *)
MisZ(w) ==
  IF Ev.out \notin {"ok", "nan"} THEN {<<l, "C04", "panic">>}
  ELSE IF Ev.out # w.out THEN {<<l, "C04", "outcome">>}
  ELSE LET g == Got(Ev.z)
       IN (IF w.out = "ok" /\ "value" \notin w.free /\ ~SameValue(g, w.d)
           THEN {<<l, pp, "value">> : pp \in w.pid} \cup (IF Aliased THEN {<<l, "C10", "value">>} ELSE {}) ELSE {})
          \cup (IF w.out = "ok" /\ "acc" \notin w.free /\ g.acc # w.d.acc THEN {<<l, pp, "acc">> : pp \in AccPid(w)} ELSE {})
          \cup (IF "prec" \notin w.free /\ g.prec # w.d.prec THEN {<<l, pp, "prec">> : pp \in {"C09"} \cup AttrPid} ELSE {})
          \cup (IF "mode" \notin w.free /\ g.mode # w.d.mode THEN {<<l, pp, "mode">> : pp \in {"C09"} \cup AttrPid} ELSE {})


(* state invariants evaluated on every event; `writes` = registers the call may change *)
Common(writes) ==
  (IF \A r \in Named : Canonical(Ev.post[r]) THEN {} ELSE {<<l, pp, "canonical">> : pp \in {"C08"} \cup HomePid(Ev.op)})
  \cup (IF \A r \in Named \ writes : Canonical(Ev.post[r]) => Got(r) = regs[r]
        THEN {} ELSE {<<l, "C09", "operand">>})
  \cup (IF \A r \in DOMAIN Ev.dg \ Named : r \in DOMAIN dgs => Ev.dg[r] = dgs[r]
        THEN {} ELSE {<<l, "C09", "frame">>, <<l, "C10", "frame">>})

Bump(tags) == [k \in DOMAIN cov \cup tags |-> (IF k \in DOMAIN cov THEN cov[k] ELSE 0) + (IF k \in tags THEN 1 ELSE 0)]

Adopt == [r \in DOMAIN regs \cup Named |-> IF r \in Named THEN Got(r) ELSE regs[r]]

IsEv(op) == l <= Len(T) /\ Ev.op = op /\ Ev.out # "panic"

(* a call with receiver Ev.z whose wanted outcome is w *)
(* mismatches are stored as <<event, property, kind, deviation>>; deviation = "" unless a NAMED deviation of *)
(* the specification (a recorded finding, see known_findings.json) reproduces the observed result        *)
(* inside a Par block (goroutines running concurrently) every mismatch contradicts C18: "every result equals the one obtained sequentially" *)
Tag(S, dev) == {<<t[1], t[2], t[3], dev>> : t \in S} \cup (IF "par" \in DOMAIN Ev THEN {<<t[1], "C18", t[3], dev>> : t \in S} ELSE {})
               \cup (IF "c" \in DOMAIN Ev THEN {<<t[1], "C19", t[3], dev>> : t \in S} ELSE {})

(* C10, stated directly: drivers tag the variants (aliasing shapes, receiver histories) of one operation *)
(* instance with the same "inst"; every variant must leave the same outcome and receiver as the first.  *)
VariantKey == [out |-> Ev.out, d |-> IF Ev.out = "ok" THEN Got(Ev.z) ELSE [Got(Ev.z) EXCEPT !.form = "zero", !.neg = FALSE, !.dig = Zero, !.exp = IZero, !.acc = 0]]
VariantBad == IF "inst" \in DOMAIN Ev /\ Ev.inst \in DOMAIN vres /\ vres[Ev.inst] # VariantKey
              THEN {<<l, "C10", "variant">>} ELSE {}
VariantNext == IF "inst" \in DOMAIN Ev /\ Ev.inst \notin DOMAIN vres
               THEN [k \in DOMAIN vres \cup {Ev.inst} |-> IF k = Ev.inst THEN VariantKey ELSE vres[k]]
               ELSE vres

(* an event that names a register whose last observation was malformed is not judged *)
Skip == \E r \in Named : r \in DOMAIN regs /\ regs[r].form = "bad"

StepDev(w, tags, extra, dev) ==
  /\ l' = l + 1
  /\ vres' = IF Skip THEN vres ELSE VariantNext
  /\ ctxs' = ctxs /\ pool' = pool
  /\ bad' = IF Skip THEN bad \cup Tag(Common(Named), "")
            ELSE bad \cup Tag(MisZ(w) \cup extra, dev) \cup Tag(Common({Ev.z}) \cup VariantBad, "")
  /\ cov' = IF Skip THEN Bump({"skipped"}) ELSE Bump({Ev.op} \cup tags)
  /\ regs' = Adopt
  /\ dgs' = Ev.dg

StepX(w, tags, extra) == StepDev(w, tags, extra, "")
Step(w, tags) == StepX(w, tags, {})

(* an observer: no register may change; ok is the comparison of the logged result with the spec *)
Observe(ok, pid, tags) ==
  /\ l' = l + 1
  /\ vres' = vres
  /\ ctxs' = ctxs /\ pool' = pool
  /\ bad' = IF Skip THEN bad \cup Tag(Common(Named), "")
            ELSE bad \cup Tag((IF Ev.out # "ok" THEN {<<l, "C04", "panic">>} ELSE IF ok THEN {} ELSE {<<l, pid, "ret">>})
                           \cup Common({}), "")
  /\ cov' = IF Skip THEN Bump({"skipped"}) ELSE Bump({Ev.op} \cup tags)
  /\ regs' = Adopt
  /\ dgs' = Ev.dg

ObserveDev(ok, pid, tags, dev) ==
  /\ l' = l + 1
  /\ vres' = vres
  /\ ctxs' = ctxs /\ pool' = pool
  /\ bad' = IF Skip THEN bad \cup Tag(Common(Named), "")
            ELSE bad \cup Tag(IF Ev.out # "ok" THEN {<<l, "C04", "panic">>} ELSE IF ok THEN {} ELSE {<<l, pid, "ret">>}, dev)
                     \cup Tag(Common({}), "")
  /\ cov' = IF Skip THEN Bump({"skipped"}) ELSE Bump({Ev.op} \cup tags)
  /\ regs' = Adopt
  /\ dgs' = Ev.dg

RoundTags(w) == {Ev.op \o ":" \o w.why}
FormTag2 == {Ev.op \o ":" \o Pre(Ev.x).form \o "," \o Pre(Ev.y).form}
ModeTag == {"mode:" \o ToString(Pre(Ev.z).mode)}

(***************************************************************************)
(* Trace actions                                                           *)
(***************************************************************************)
TReset ==
  /\ IsEv("Reset")
  /\ l' = l + 1
  /\ vres' = <<>>
  /\ ctxs' = [c \in {Ev.ctxs[i] : i \in 1..Len(Ev.ctxs)} |-> CtxRec(0, 0)]
  /\ pool' = <<>>
  /\ regs' = [r \in Named |-> Got(r)]
  /\ dgs' = Ev.dg
  /\ bad' = bad \cup Tag(IF \A r \in Named : Canonical(Ev.post[r]) /\ Got(r) = ZeroValue THEN {} ELSE {<<l, "C08", "zerovalue">>}, "")
  /\ cov' = Bump({"Reset"})

(* any call that panicked with something else than ErrNaN: "no operation on valid arguments panics with anything else" *)
TPanic ==
  /\ l <= Len(T) /\ Ev.out = "panic" /\ Ev.op \notin {"Ctx.AddNilY", "N.mul", "N.sqr", "N.div", "K", "K.tables"}     \* (those actions judge their own panics)
  /\ l' = l + 1
  /\ vres' = vres
  /\ ctxs' = ctxs /\ pool' = pool
  /\ bad' = bad \cup Tag({<<l, pp, "panic">> : pp \in {"C04"} \cup HomePid(Ev.op)} \cup Common(Named), "")
  /\ cov' = Bump({"panic"})
  /\ regs' = Adopt
  /\ dgs' = Ev.dg

(* set-up pseudo-operation of the drivers: the specification adopts whatever (canonical) value results *)
TLoad ==
  /\ IsEv("Load")
  /\ l' = l + 1
  /\ vres' = vres
  /\ ctxs' = ctxs /\ pool' = pool
  /\ bad' = bad \cup Tag((IF Ev.out # "ok" THEN {<<l, "C04", "panic">>} ELSE {}) \cup Common({Ev.z}), "")
  /\ cov' = Bump({"Load"})
  /\ regs' = Adopt
  /\ dgs' = Ev.dg

TAdd == IsEv("Add") /\ LET w == OpAdd(Pre(Ev.z), Pre(Ev.x), Pre(Ev.y)) IN Step(w, FormTag2 \cup ModeTag \cup RoundTags(w))
TSub == IsEv("Sub") /\ LET w == OpSub(Pre(Ev.z), Pre(Ev.x), Pre(Ev.y)) IN Step(w, FormTag2 \cup ModeTag \cup RoundTags(w))
TMul == IsEv("Mul") /\ LET w == OpMul(Pre(Ev.z), Pre(Ev.x), Pre(Ev.y)) IN Step(w, FormTag2 \cup ModeTag \cup RoundTags(w))
TQuo ==
  /\ IsEv("Quo")
  /\ LET z == Pre(Ev.z)  x == Pre(Ev.x)  y == Pre(Ev.y)
         w == OpQuo(z, x, y)
         \* declarative double check on the OBSERVED quotient (cross-multiplication only, no division)
         decl == IF x.form = "finite" /\ y.form = "finite" /\ Ev.out = "ok" /\ Canonical(Ev.post[Ev.z]) /\ Got(Ev.z).prec >= 1
                 THEN LET g == Got(Ev.z)
                          e == ISub(CoefExp(x), CoefExp(y))
                      IN (IF CorrectValue(x.neg # y.neg, x.dig, y.dig, e, g.prec, g.mode, g) THEN {} ELSE {<<l, "C01", "declarative">>})
                         \cup (IF AccTruthful(x.neg # y.neg, x.dig, y.dig, e, g.prec, g) THEN {} ELSE {<<l, "C02", "declarative">>})
                 ELSE {}
     IN StepX(w, FormTag2 \cup ModeTag \cup RoundTags(w), decl)
(* Recorded finding D17 (known_findings.json): when the exponent of the exact PRODUCT leaves the int32 range the *)
(* implementation flushes the product to an infinity or a zero before the addition.  The deviation is named and   *)
(* exact: the observed result must be precisely Add(flushed product, u).                                          *)
DevFMAProductRange(z, x, y, u, g) ==
  /\ x.form = "finite" /\ y.form = "finite" /\ u.form = "finite" /\ Ev.out = "ok"
  /\ LET E0 == IAddInt(IAdd(CoefExp(x), CoefExp(y)), MagOf(Mul(x.dig, y.dig), One))
         p  == IF z.prec # 0 THEN z.prec ELSE MaxI(MaxI(x.prec, y.prec), u.prec)
         zz == MkDec("zero", FALSE, Zero, IZero, p, z.mode, Exact)
         fl == IF IGt(E0, MaxExp) THEN MkDec("inf", x.neg # y.neg, Zero, IZero, p, z.mode, Exact)
               ELSE MkDec("zero", x.neg # y.neg, Zero, IZero, p, z.mode, Exact)
     IN /\ (IGt(E0, MaxExp) \/ ILt(E0, MinExp))
        /\ LET d == OpAdd(zz, fl, u).d IN SameValue(g, d) /\ g.acc = d.acc

TFMA ==
  /\ IsEv("FMA")
  /\ LET z == Pre(Ev.z)  x == Pre(Ev.x)  y == Pre(Ev.y)  u == Pre(Ev.u)
         w == OpFMA(z, x, y, u)
         dev == IF MisZ(w) # {} /\ DevFMAProductRange(z, x, y, u, Got(Ev.z)) THEN "Dev_FMA_ProductRange" ELSE ""
         ftag == {"FMA:" \o x.form \o "," \o y.form \o "," \o u.form} \cup
                 (IF w.out = "ok" /\ x.form = "finite" /\ y.form = "finite" /\ u.form = "finite"
                  THEN LET m == MulThenAdd(z, x, y, u)
                       IN IF m.out = "ok" /\ SameValue(m.d, w.d) /\ m.d.acc = w.d.acc THEN {"FMA:same-as-mul-add"} ELSE {"FMA:differs-from-mul-add"}
                  ELSE {})
     IN StepDev(w, ModeTag \cup RoundTags(w) \cup ftag, {}, dev)
(* Recorded finding D7 (known_findings.json): Sqrt multiplies x by an approximation of 1/sqrt(x) and rounds the   *)
(* product, which is a second rounding: the result can be the OTHER p-digit neighbour of sqrt(x).  The deviation *)
(* is named and bounded: precision, mode, sign, canonical form as specified and |result - sqrt(x)| < 1 ulp.      *)
DevSqrtFaithful(x, g) ==
  /\ x.form = "finite" /\ ~x.neg /\ Ev.out = "ok" /\ g.form = "finite" /\ g.prec >= 1
  /\ Canonical(Ev.post[Ev.z])
  /\ SqrtFaithful(x.dig, CoefExp(x), g.prec, g)

TSqrt ==
  /\ IsEv("Sqrt")
  /\ LET z == Pre(Ev.z)  x == Pre(Ev.x)
         w == OpSqrt(z, x)
         g == Got(Ev.z)
         valueBad == \E t \in MisZ(w) : t[3] = "value"
         \* declarative double check on the OBSERVED root (squaring only), when the operational layer accepted it
         decl == IF x.form = "finite" /\ ~x.neg /\ Ev.out = "ok" /\ Canonical(Ev.post[Ev.z]) /\ g.prec >= 1
                    /\ g.form = "finite" /\ ~valueBad
                 THEN (IF SqrtOK(x.dig, CoefExp(x), g.prec, g.mode, g) THEN {} ELSE {<<l, "C05", "declarative">>})
                 ELSE {}
         dev == IF valueBad /\ DevSqrtFaithful(x, g) THEN "Dev_Sqrt_Faithful" ELSE ""
         sq == IF x.form = "finite" /\ ~x.neg
               THEN (IF SqrtParts(x.dig, CoefExp(x), 1).exact THEN {"Sqrt:perfect-square"} ELSE {"Sqrt:irrational"})
                    \cup (IF IIsEven(x.exp) THEN {"Sqrt:even-exp"} ELSE {"Sqrt:odd-exp"})
                    \cup (IF z.prec = 0 THEN {"Sqrt:prec0"} ELSE IF z.prec < x.prec THEN {"Sqrt:zprec<xprec"} ELSE IF z.prec = x.prec THEN {"Sqrt:zprec=xprec"} ELSE {"Sqrt:zprec>xprec"})
               ELSE {}
         \* "the receiver's precision and rounding mode are the same after the call as before it" is part of C05
         attr == {<<t[1], "C05", t[3]>> : t \in {u \in MisZ(w) : u[2] = "C09"}}
     IN StepDev(w, ModeTag \cup RoundTags(w) \cup {"Sqrt:" \o x.form} \cup sq, decl \cup attr, dev)
TNeg == IsEv("Neg") /\ Step(OpNeg(Pre(Ev.z), Pre(Ev.x)), ModeTag)
TAbs == IsEv("Abs") /\ Step(OpAbs(Pre(Ev.z), Pre(Ev.x)), ModeTag)
TSet == IsEv("Set") /\ LET w == OpSet(Pre(Ev.z), Pre(Ev.x)) IN Step(w, ModeTag \cup RoundTags(w))
TCopy == IsEv("Copy") /\ Step(OpCopy(Pre(Ev.z), Pre(Ev.x)), {})
TSetPrec == IsEv("SetPrec") /\ LET w == OpSetPrec(Pre(Ev.z), Ev.p) IN Step(w, ModeTag \cup RoundTags(w))
(* SetPrec(MaxPrec): precisions >= 2^30 are observed (and modelled) as the sentinel 2^30 *)
TSetPrecMax == IsEv("SetPrecMax") /\ LET w == OpSetPrec(Pre(Ev.z), MaxPrec) IN Step(w, ModeTag \cup RoundTags(w))
TSetMode == IsEv("SetMode") /\ Step(OpSetMode(Pre(Ev.z), Ev.m), {})
TSetInf == IsEv("SetInf") /\ Step(OpSetInf(Pre(Ev.z), Ev.neg), {})
TNew == IsEv("New") /\ Step(Outcome("ok", ZeroValue, {}, {"C08"}), {})

TSetInt64 ==
  /\ IsEv("SetInt64")
  /\ LET v == IFromStr(Ev.i) IN Step(OpSetInt64(Pre(Ev.z), v.neg, v.mag), ModeTag)
TSetUint64 == IsEv("SetUint64") /\ Step(OpSetUint64(Pre(Ev.z), FromStr(Ev.i)), ModeTag)
TNewDecimal ==
  /\ IsEv("NewDecimal")
  /\ LET v == IFromStr(Ev.i) IN Step(OpNewDecimal(v.neg, v.mag, IFromStr(Ev.e)), {})

TSetInt ==
  /\ IsEv("SetInt")
  /\ LET z == Pre(Ev.z)  v == IFromStr(Ev.i)  pobs == Ev.post[Ev.z].prec
         w == OpSetInt(z, v.neg, v.mag, pobs)
         g == Got(Ev.z)
         extra == IF z.prec = 0 /\ v.mag # Zero /\ Ev.out = "ok"
                  THEN (IF SetIntPrecOK(v.mag, pobs) THEN {} ELSE {<<l, "C09", "prec">>})
                       \cup (IF g.acc = Exact THEN {} ELSE {<<l, "C14", "prec0-rounded">>})
                  ELSE {}
     IN StepX(w, ModeTag \cup RoundTags(w) \cup {"SetInt:prec" \o (IF z.prec = 0 THEN "0" ELSE "n")}, extra)
TSetRat ==
  /\ IsEv("SetRat")
  /\ LET z == Pre(Ev.z)  n == IFromStr(Ev.num)  d == FromStr(Ev.den)  pobs == Ev.post[Ev.z].prec
         qr == DivMod(n.mag, d)
         isint == qr[2] = Zero
         w == IF isint THEN OpSetInt(z, n.neg, qr[1], pobs) ELSE OpSetRat(z, n.neg, n.mag, d, pobs)
         extra == IF z.prec = 0 /\ Ev.out = "ok" /\ n.mag # Zero /\ isint /\ ~SetIntPrecOK(qr[1], pobs) THEN {<<l, "C09", "prec">>}
                  ELSE IF z.prec = 0 /\ Ev.out = "ok" /\ ~isint /\ pobs < DefaultPrec THEN {<<l, "C09", "prec">>} ELSE {}
     IN StepX(w, ModeTag \cup RoundTags(w) \cup {"SetRat:" \o (IF isint THEN "integer" ELSE "fraction")}, extra)

TInt64 == IsEv("Int64") /\ LET r == OpInt64(Pre(Ev.x), 64) IN Observe(IFromStr(Ev.ret.v) = r.v /\ Ev.ret.acc = r.acc, "C14", {"Int64:acc" \o ToString(r.acc)} \cup (IF r.v.mag = Sub(Pow2(63), One) \/ r.v.mag = Pow2(63) THEN {"Int64:limit"} ELSE {}))
TUint64 == IsEv("Uint64") /\ LET r == OpUint64(Pre(Ev.x), 64) IN Observe(IFromStr(Ev.ret.v) = r.v /\ Ev.ret.acc = r.acc, "C14", {"Uint64:acc" \o ToString(r.acc)} \cup (IF r.v.mag = Sub(Pow2(64), One) THEN {"Uint64:limit"} ELSE {}))
TInt == IsEv("Int") /\ LET r == OpInt(Pre(Ev.x)) IN Observe(Ev.ret.nil = r.nil /\ Ev.ret.acc = r.acc /\ (~r.nil => IFromStr(Ev.ret.v) = r.v), "C14", {"Int:acc" \o ToString(r.acc)})
TRat ==
  /\ IsEv("Rat")
  /\ LET x == Pre(Ev.x)  n == IFromStr(Ev.ret.num)
     IN Observe(IF x.form = "inf" THEN Ev.ret.nil /\ Ev.ret.acc = (IF x.neg THEN Above ELSE Below)
                ELSE ~Ev.ret.nil /\ Ev.ret.acc = Exact /\ FromStr(Ev.ret.den) # Zero /\ RatDenotes(x, n.neg, n.mag, FromStr(Ev.ret.den)), "C14", {"Rat:" \o x.form})

BinOfEv == [k |-> Ev.fk, neg |-> Ev.fneg, m |-> FromStr(Ev.fm), q |-> Ev.fe2]
BinOfRet == [k |-> Ev.ret.k, neg |-> Ev.ret.neg, m |-> IF Ev.ret.k = "fin" THEN FromStr(Ev.ret.m) ELSE Zero, q |-> IF Ev.ret.k = "fin" THEN Ev.ret.e2 ELSE 0]

(* binary -> decimal: exact when the precision can hold the expansion, else within n units (1 for SetFloat64, 64 for SetFloat) *)
SetBinStepZ(z, b, pdef, n, tagp) ==
  LET w == OpSetBin(z, b, IF z.prec = 0 /\ pdef = 0 THEN Ev.post[Ev.z].prec ELSE pdef)
      g == Got(Ev.z)
      extra == IF b.k = "fin" /\ Ev.out = "ok" /\ Canonical(Ev.post[Ev.z]) /\ g.prec >= 1
               THEN (IF g.form = "finite" /\ BinSetOK(z, b, g, n) THEN {} ELSE {<<l, "C15", "value">>})
               ELSE {}
      tags == {tagp \o ":" \o b.k} \cup
              (IF b.k = "fin" /\ Ev.out = "ok" /\ g.form = "finite" /\ g.prec >= 1
               THEN (IF RoundTo(b.neg, BinN(b), BinD(b), IZero, g.prec, g.mode).acc = Exact THEN {tagp \o ":exact"} ELSE {tagp \o ":rounded"}) ELSE {})
  IN StepX(IF z.prec = 0 /\ pdef = 0 THEN [w EXCEPT !.free = w.free \cup {"prec"}] ELSE w, ModeTag \cup tags, extra)

SetBinStep(b, pdef, n, tagp) == SetBinStepZ(Pre(Ev.z), b, pdef, n, tagp)
TSetFloat64 == IsEv("SetFloat64") /\ SetBinStep(DecodeF64(FromStr(Ev.bits)), 17, 1, "SetFloat64")
TSetFloat == IsEv("SetFloat") /\ SetBinStep(BinOfEv, 0, 64, "SetFloat")

ToBinStep(F, G, tagp) ==
  LET x == Pre(Ev.x)  f == BinOfRet
      vok == ToBinaryValueOK(x, F, f)
      aok == ToBinaryAccOK(x, f, Ev.ret.acc)
      dev == IF ~vok /\ aok /\ Ev.out = "ok" /\ DoubleRoundingClass(x, F, f, G) THEN "Dev_Float_DoubleRounding" ELSE ""
  IN ObserveDev(vok /\ aok, "C15", {tagp \o ":" \o f.k} \cup (IF f.k = "fin" /\ f.q = F.qmin THEN {tagp \o ":subnormal"} ELSE {})
                                      \cup (IF x.form = "finite" /\ Ev.ret.acc = 0 THEN {tagp \o ":exact"} ELSE {}), dev)
TFloat64 == IsEv("Float64") /\ ToBinStep(F64, 11, "Float64")
TFloat32 == IsEv("Float32") /\ ToBinStep(F32, 8, "Float32")
(* Float: documented as naive: within 64 units in the last place of the big.Float's precision; zeros and infinities exactly *)
TFloat ==
  /\ IsEv("Float")
  /\ LET x == Pre(Ev.x)  f == BinOfRet
     IN Observe(CASE x.form = "zero" -> f.k = "zero" /\ f.neg = x.neg
                  [] x.form = "inf" -> f.k = "inf" /\ f.neg = x.neg
                  [] OTHER -> Ev.ret.prec >= 1 /\ BigFloatWithin(x, f, Ev.ret.prec, 64), "C15", {"Float:" \o x.form})

(* C17.  The encoder is bound to the specification's decoder: the payload must denote exactly x. *)
GobEncodeOK(x, bs) == WellFormedGob(bs) /\ DecodeGob(bs) = x
TGobEncode ==
  /\ IsEv("GobEncode")
  /\ Observe(~Ev.ret.err /\ GobEncodeOK(Pre(Ev.x), HexBytes(Ev.ret.hex)), "C17", {"GobEncode:" \o Pre(Ev.x).form})
(* z.GobDecode(payload): a well-formed payload must be accepted and denote the result; anything else must *)
(* give an error or leave a canonical Decimal (Canonical is checked on every event anyway)                *)
GobDecodeStep(bs, tagp) ==
  LET z == Pre(Ev.z)
      wf == Len(bs) = 0 \/ WellFormedGob(bs)
  IN IF wf
     THEN StepX(OpGobDecode(z, bs), {tagp \o ":wellformed", tagp \o (IF z.prec = 0 THEN ":prec0" ELSE ":precn")},
                IF Ev.out = "ok" /\ Ev.ret.err THEN {<<l, "C17", "rejected">>} ELSE {})
     ELSE StepX([Outcome("ok", z, {"value", "acc", "prec", "mode"}, {"C17"}) EXCEPT !.why = "corrupt"],
                {tagp \o ":corrupt", tagp \o (IF Ev.out = "ok" /\ Ev.ret.err THEN ":corrupt-error" ELSE ":corrupt-accepted")}, {})
TGobDecode == IsEv("GobDecode") /\ GobDecodeStep(HexBytes(Ev.hex), "GobDecode")
TGobMutate == IsEv("GobMutate") /\ GobDecodeStep(HexBytes(Ev.ret.hex), "GobMutate")
TGobRoundTrip ==
  /\ IsEv("GobRoundTrip")
  /\ LET bs == HexBytes(Ev.ret.hex)
         x == Pre(Ev.x)
     IN IF Ev.out = "ok" /\ ~GobEncodeOK(x, bs)
        THEN StepX(Outcome("ok", x, {"value", "acc", "prec", "mode"}, {"C17"}), {}, {<<l, "C17", "encode">>})
        ELSE GobDecodeStep(bs, "GobRoundTrip")
(* through encoding/gob streams: no payload is visible; the receiver must end up as OpGobDecode of x's own encoding says *)
TGobStream ==
  /\ IsEv("GobStream")
  /\ LET x == Pre(Ev.x)  z == Pre(Ev.z)
         w == IF z.prec = 0 THEN Outcome("ok", x, {}, {"C17"}) ELSE Ok(SetLike(x.neg, x, z.prec, z.mode), z.prec, z.mode, {"C17"})
     IN StepX(w, {"GobStream"}, IF Ev.out = "ok" /\ Ev.ret.err THEN {<<l, "C17", "rejected">>} ELSE {})

(***************************************************************************)
(* Below the API, through the verif hooks: natural-number algorithms (C06) *)
(* and word kernels (C07).                                                 *)
(***************************************************************************)
WordsIn(ss) == [i \in 1..Len(ss) |-> FromStr(ss[i])]
NatObserve2(ok, pid, tags) ==
  /\ l' = l + 1 /\ vres' = vres /\ ctxs' = ctxs /\ pool' = pool /\ regs' = regs /\ dgs' = dgs
  /\ bad' = bad \cup Tag(IF Ev.out # "ok" THEN {<<l, pid, "panic">>, <<l, "C04", "panic">>} ELSE IF ok THEN {} ELSE {<<l, pid, "ret">>}, "")
  /\ cov' = Bump({Ev.op} \cup tags)
NatObserve(ok, pid, tags0) ==
  /\ LET tags == IF Ev.out = "ok" THEN tags0 ELSE {Ev.op \o ":panic"} IN NatObserve2(ok, pid, tags)
LenClass(n) == IF n <= 1 THEN ToString(n) ELSE IF n < 10 THEN "2-9" ELSE IF n < 100 THEN "10-99" ELSE ">=100"
TNMul ==
  /\ l <= Len(T) /\ Ev.op = "N.mul"
  /\ LET x == WordsIn(Ev.x)  y == WordsIn(Ev.y)
     IN NatObserve(MulPost(x, y, WordsIn(Ev.ret.z)), "C06",
                   {"N.mul:" \o MulRegime(NNormIn(x), NNormIn(y), Ev.ret.thr[1]), "N.mul:len" \o LenClass(Len(y))})
TNSqr ==
  /\ l <= Len(T) /\ Ev.op = "N.sqr"
  /\ LET x == WordsIn(Ev.x)
     IN NatObserve(SqrPost(x, WordsIn(Ev.ret.z)), "C06", {"N.sqr:" \o SqrRegime(NNormIn(x), Ev.ret.thr[2], Ev.ret.thr[3])})
TNDiv ==
  /\ l <= Len(T) /\ Ev.op = "N.div"
  /\ LET u == WordsIn(Ev.u)  v == WordsIn(Ev.v)
     IN NatObserve(DivPost(u, v, WordsIn(Ev.ret.q), WordsIn(Ev.ret.r)), "C06",
                   {"N.div:" \o DivRegime(u, v, Ev.ret.rec), "N.div:" \o (IF Len(Ev.ret.r) = 0 THEN "exact" ELSE "remainder")})

(* kernels: the build's implementation ("asm") and the portable one ("go") must both satisfy the mathematical *)
(* post-condition, hence agree with each other                                                               *)
KArgs == [zo |-> Ev.zo, xo |-> Ev.xo, yo |-> IF "yo" \in DOMAIN Ev THEN Ev.yo ELSE 0, n |-> Ev.n,
          y |-> IF "y" \in DOMAIN Ev THEN FromStr(Ev.y) ELSE Zero, r |-> IF "r" \in DOMAIN Ev THEN FromStr(Ev.r) ELSE Zero,
          w |-> IF "w" \in DOMAIN Ev THEN FromStr(Ev.w) ELSE Zero, s |-> IF "s" \in DOMAIN Ev THEN Ev.s ELSE 0]
KName == Ev.k
TKernel ==
  /\ l <= Len(T) /\ Ev.op = "K"
  /\ LET pre == WordsIn(Ev.mem)
         a == KArgs
         scalar == KName \in {"mul10WW", "div10W", "div10WW", "mulAdd10WWW"}
         okOf(res) == IF scalar THEN ScalarPost(KName, FromStr(res.c), FromStr(res.c2), a, Pow2(64))
                      ELSE KernelPost(KName, pre, WordsIn(res.mem), FromStr(res.c), a)
     IN /\ l' = l + 1 /\ vres' = vres /\ ctxs' = ctxs /\ pool' = pool /\ regs' = regs /\ dgs' = dgs
        /\ bad' = bad \cup Tag(IF Ev.out # "ok" THEN {<<l, "C07", "panic">>}
                                ELSE (IF okOf(Ev.ret.asm) THEN {} ELSE {<<l, "C07", "asm">>})
                                     \cup (IF okOf(Ev.ret.go) THEN {} ELSE {<<l, "C07", "go">>})
                                     \cup (IF Ev.ret.asm = Ev.ret.go THEN {} ELSE {<<l, "C07", "asm-vs-go">>}), "")
        /\ cov' = Bump({"K:" \o KName, "K:" \o KName \o ":" \o (IF scalar THEN "scalar" ELSE IF Ev.zo = Ev.xo THEN "inplace"
                                                            ELSE IF Ev.zo >= Ev.xo + Ev.n \/ Ev.xo >= Ev.zo + Ev.n THEN "disjoint" ELSE "overlap"),
                         "K:" \o KName \o ":n" \o LenClass(Ev.n)})
(***************************************************************************)
(* Concurrency (C18): the events of a Par block are the goroutines' own    *)
(* logs (grouped by goroutine; operands are shared read-only, receivers    *)
(* private, so every event is validated against the sequential             *)
(* specification as usual); ParEnd carries the observation of ALL          *)
(* registers and the pool events, which must be a behaviour of DecPool.    *)
(***************************************************************************)
TParBegin ==
  /\ l <= Len(T) /\ Ev.op = "ParBegin"
  /\ l' = l + 1 /\ UNCHANGED <<regs, dgs, bad, vres, ctxs>> /\ pool' = <<>> /\ cov' = Bump({"Par:k" \o ToString(Ev.k)})
(* one logged pool event = one DecPool action: Get of a buffer nobody holds, Put only by the holder *)
TPoolGet ==
  /\ l <= Len(T) /\ Ev.op = "PoolGet"
  /\ l' = l + 1 /\ UNCHANGED <<regs, dgs, vres, ctxs>>
  /\ bad' = IF Ev.buf \in DOMAIN pool THEN bad \cup {<<l, "C18", "pool-double-holder", "">>} ELSE bad
  /\ pool' = [b \in DOMAIN pool \cup {Ev.buf} |-> IF b = Ev.buf THEN Ev.g ELSE pool[b]]
  /\ cov' = IF "PoolGet" \in DOMAIN cov THEN [cov EXCEPT !["PoolGet"] = @ + 1] ELSE Bump({"PoolGet"})
TPoolPut ==
  /\ l <= Len(T) /\ Ev.op = "PoolPut"
  /\ l' = l + 1 /\ UNCHANGED <<regs, dgs, vres, ctxs>>
  /\ bad' = IF Ev.buf \in DOMAIN pool /\ pool[Ev.buf] = Ev.g THEN bad ELSE bad \cup {<<l, "C18", "pool-put-by-non-holder", "">>}
  /\ pool' = [b \in DOMAIN pool \ {Ev.buf} |-> pool[b]]
  /\ cov' = IF "PoolPut" \in DOMAIN cov THEN [cov EXCEPT !["PoolPut"] = @ + 1] ELSE Bump({"PoolPut"})
TParEnd ==
  /\ l <= Len(T) /\ Ev.op = "ParEnd"
  /\ l' = l + 1 /\ vres' = vres /\ ctxs' = ctxs /\ pool' = pool /\ regs' = Adopt /\ dgs' = Ev.dg
  /\ bad' = bad \cup (IF \A r \in Named : Canonical(Ev.post[r]) /\ Got(r) = regs[r] THEN {} ELSE {<<l, "C18", "shared-or-private-register-changed", "">>})
                \cup (IF Ev.ret.truncated \/ pool = <<>> THEN {} ELSE {<<l, "C18", "pool-buffer-never-returned", "">>})
                \* "no operand is modified": the raw observation (mantissa words included) of every register that no goroutine
                \* writes is the same after the block as before it - a write that keeps the value is still a write
                \cup (IF \A r \in DOMAIN Ev.ret.before : Ev.ret.before[r] = Ev.ret.after[r] THEN {} ELSE {<<l, "C18", "shared-operand-written", "">>})
  /\ cov' = Bump({"ParEnd"})
(* the division-by-10^k tables as dumped from the library (hook VerifMagic): every row satisfies the sufficient condition *)
TMagic ==
  /\ l <= Len(T) /\ Ev.op = "K.tables"
  /\ l' = l + 1 /\ UNCHANGED <<regs, dgs, vres, ctxs, pool>>
  /\ LET rows == Ev.ret.rows
         okr(i) == MagicRowOK(FromStr(rows[i].d), FromStr(rows[i].m), rows[i].pre, rows[i].post, i)
     IN /\ bad' = bad \cup {<<l, "C07", "magic-row-" \o ToString(i), "">> : i \in {j \in 1..Len(rows) : ~okr(j)}}
                       \cup (IF Len(rows) = 18 /\ Ev.out = "ok" THEN {} ELSE {<<l, "C07", "magic-table-size", "">>})
        /\ cov' = Bump({"K.tables"})
NatNext == TMagic \/ TNMul \/ TNSqr \/ TNDiv \/ TKernel \/ TParBegin \/ TParEnd \/ TPoolGet \/ TPoolPut

(***************************************************************************)
(* Text output (C13, C11).  When the step carries "f64" the executor also  *)
(* logged what strconv / fmt print for the float64 of the same value       *)
(* (ret.ref): a second implementation of the same layout specification.    *)
(***************************************************************************)
RefOK(want) == "ref" \in DOMAIN Ev.ret => Ev.ret.ref = want
FmtTags(x, f, prec) == {Ev.op \o ":" \o f, Ev.op \o ":" \o x.form, Ev.op \o (IF prec < 0 THEN ":shortest" ELSE ":prec")}
                       \cup (IF "ref" \in DOMAIN Ev.ret THEN {Ev.op \o ":ref"} ELSE {})
TText == IsEv("Text") /\ LET x == Pre(Ev.x)  w == Text(x, Ev.fmt, Ev.prec) IN Observe(Ev.ret.s = w /\ RefOK(w), "C13", FmtTags(x, Ev.fmt, Ev.prec))
TAppend == IsEv("Append") /\ LET x == Pre(Ev.x)  w == Ev.pre \o Text(x, Ev.fmt, Ev.prec) IN Observe(Ev.ret.s = w, "C13", FmtTags(x, Ev.fmt, Ev.prec))
TString == IsEv("String") /\ LET x == Pre(Ev.x) IN Observe(Ev.ret.s = Text(x, "g", 10), "C13", {})
TMarshalText == IsEv("MarshalText") /\ LET x == Pre(Ev.x) IN Observe(~Ev.ret.err /\ Ev.ret.s = Text(x, "g", -1), "C11", {})
TMarshalJSON == IsEv("MarshalJSON") /\ LET x == Pre(Ev.x) IN Observe(~Ev.ret.err /\ Ev.ret.s = "\"" \o Text(x, "g", -1) \o "\"", "C11", {})
TFormat ==
  /\ IsEv("Format")
  /\ LET x == Pre(Ev.x)
         w == FormatText(x, Ev.verb, [plus |-> Ev.plus, space |-> Ev.space, zero |-> Ev.zero, minus |-> Ev.minus], Ev.haswidth, Ev.width, Ev.hasprec, Ev.fprec)
     IN Observe(Ev.ret.s = w /\ RefOK(w), "C13", {"Format:" \o Ev.verb, "Format:" \o x.form}
                  \cup (IF Ev.plus THEN {"Format:+"} ELSE {}) \cup (IF Ev.space THEN {"Format:space"} ELSE {}) \cup (IF Ev.zero THEN {"Format:0"} ELSE {})
                  \cup (IF Ev.minus THEN {"Format:-"} ELSE {}) \cup (IF Ev.haswidth THEN {"Format:width"} ELSE {}) \cup (IF "ref" \in DOMAIN Ev.ret THEN {"Format:ref"} ELSE {}))

(***************************************************************************)
(* Text input (C12, C11).                                                  *)
(***************************************************************************)
(* must the literal be rejected?  not recognised, decimal exponent outside int32, or a binary exponent that *)
(* certainly leaves the range; "free" when only one reading of "exponent outside the int32 range" applies   *)
LitMustFail(lt) == ~lt.ok \/ (~lt.inf /\ LitRangeError(lt))
                  \/ (~lt.inf /\ lt.ok /\ lt.M # Zero /\ ~IsDecimalLit(lt) /\ Len(LitK2(lt).mag) > 10)
LitBinSmall(lt) == Len(LitK2(lt).mag) <= 5 \/ (Len(LitK2(lt).mag) = 6 /\ Lt(LitK2(lt).mag, FromInt(300001)))
LitFree(lt) == lt.ok /\ ~lt.inf /\ lt.M # Zero /\ ~IsDecimalLit(lt) /\ ~LitMustFail(lt) /\ ~LitBinSmall(lt)

ParseStepZ(z, lt, okRet, checkBase) ==
  IF LitMustFail(lt)
     THEN \* error: nil result, receiver valid but undefined
          StepX([Outcome("ok", z, {"value", "acc", "prec", "mode"}, {"C12"}) EXCEPT !.why = "rejected"], {Ev.op \o ":rejected"},
                IF Ev.out = "ok" /\ okRet THEN {<<l, "C12", "accepted-invalid">>} ELSE {})
     ELSE IF LitFree(lt)
     THEN StepX([Outcome("ok", z, {"value", "acc", "prec", "mode"}, {"C12"}) EXCEPT !.why = "free"], {Ev.op \o ":free"}, {})
     ELSE LET w == OpParse(z, lt)
              g == Got(Ev.z)
              bin == ~lt.inf /\ lt.M # Zero /\ ~IsDecimalLit(lt)
              \* a binary literal whose true value leaves the exponent range must be rejected; otherwise exact / within one ulp
              binr == RoundTo(lt.neg, BinLitN(lt), BinLitD(lt), LitK10(lt), IF g.prec >= 1 THEN g.prec ELSE 1, g.mode)
              extra == IF Ev.out # "ok" THEN {}
                       ELSE IF bin /\ binr.form # "finite"
                            THEN (IF okRet THEN {<<l, "C12", "accepted-out-of-range">>} ELSE {})
                       ELSE (IF okRet THEN {} ELSE {<<l, "C12", "rejected-valid">>})
                            \cup (IF okRet /\ checkBase /\ Ev.ret.b # lt.base THEN {<<l, "C12", "base">>} ELSE {})
                            \cup (IF okRet /\ bin /\ Canonical(Ev.post[Ev.z]) /\ g.prec >= 1 /\ ~ParseBinOK(lt, g) THEN {<<l, "C12", "value">>} ELSE {})
                            \cup (IF okRet /\ lt.inf /\ g.prec \notin {z.prec, IF z.prec = 0 THEN DefaultPrec ELSE z.prec} THEN {<<l, "C09", "prec">>} ELSE {})
          IN IF bin /\ binr.form # "finite"
             THEN StepX([Outcome("ok", z, {"value", "acc", "prec", "mode"}, {"C12"}) EXCEPT !.why = "rejected"], {Ev.op \o ":bin-out-of-range"}, extra)
             ELSE StepX(IF okRet THEN w ELSE [w EXCEPT !.free = {"value", "acc", "prec", "mode"}],
                        {Ev.op \o ":accepted", Ev.op \o ":base" \o ToString(lt.base), Ev.op \o (IF bin THEN ":binary" ELSE IF lt.inf THEN ":inf" ELSE ":decimal")}
                          \cup RoundTags(w), extra)

ParseStep(lt, okRet, checkBase) == ParseStepZ(Pre(Ev.z), lt, okRet, checkBase)
ParseStepOn(z0, lt, okRet) == ParseStepZ(z0, lt, okRet, TRUE)

(* math/big's Float.Parse as a second implementation of the grammar: same accepted set, same detected base *)
(* (only for exponents of at most four digits: big.Float's own exponent range is binary int32, so it rejects     *)
(* literals such as 1p2279132599 that are in the Decimal's range - a range difference, not a grammar difference) *)
BigOK(lt) == ("bigok" \in DOMAIN Ev.ret /\ (lt.ok /\ ~lt.inf => Len(lt.exp.mag) <= 4)) => (Ev.ret.bigok = lt.ok /\ (lt.ok => Ev.ret.bigb = lt.base))
BigBad(lt) == IF BigOK(lt) THEN {} ELSE {<<l, "C12", "math/big-disagrees-with-grammar">>}

TParse ==
  /\ IsEv("Parse")
  /\ LET lit == ParseLit(Chars(Ev.s), Ev.base)
     IN /\ ParseStep(lit, Ev.ret.ok /\ ~Ev.ret.nilres, TRUE)
        /\ BigOK(lit)            \* (a disagreement here is a specification error: the trace is not consumed, exit 2)
TSetString == IsEv("SetString") /\ ParseStep(ParseLit(Chars(Ev.s), 0), Ev.ret.ok /\ ~Ev.ret.nilres, FALSE)
TUnmarshalText == IsEv("UnmarshalText") /\ ParseStep(ParseLit(Chars(Ev.s), 0), Ev.ret.ok, FALSE)
TUnmarshalJSON == IsEv("UnmarshalJSON") /\ ParseStep(ParseLit(Chars(Ev.s), 0), Ev.ret.ok, FALSE)
TParseDecimal ==
  /\ IsEv("ParseDecimal")
  /\ LET lit == ParseLit(Chars(Ev.s), Ev.base)
         \* ParseDecimal works on a new Decimal with the given precision and mode
         z0 == MkDec("zero", FALSE, Zero, IZero, MinI(Ev.p, MaxPrec), Ev.m, Exact)
     IN ParseStepOn(z0, lit, Ev.ret.ok /\ ~Ev.ret.nilres)
TScan == IsEv("Scan") /\ ParseStep(ScanLit(Chars(Ev.s)), Ev.ret.ok, FALSE)
(* C11: x -> text -> parse into z (precision >= MinPrec(x)) gives back exactly x's value and sign; *)
(* with precision -1 the text carries exactly MinPrec significant digits                           *)
TTextParse ==
  /\ IsEv("TextParse")
  /\ LET x == Pre(Ev.x)
         want == CASE Ev.via = "json" -> "\"" \o Text(x, "g", -1) \o "\"" [] Ev.via = "text" -> Text(x, "g", -1) [] OTHER -> Text(x, Ev.fmt, -1)
         g == Got(Ev.z)
         extra == (IF Ev.ret.s = want THEN {} ELSE {<<l, "C11", "text">>})
                  \cup (IF Ev.out = "ok" /\ Ev.ret.ok /\ Canonical(Ev.post[Ev.z]) /\ SameValue(g, x) THEN {} ELSE {<<l, "C11", "roundtrip">>})
     IN StepX(Outcome("ok", x, {"value", "acc", "prec", "mode"}, {"C11"}), {"TextParse:" \o Ev.via \o ":" \o Ev.fmt, "TextParse:" \o x.form}, extra)

(***************************************************************************)
(* package context (C19)                                                   *)
(***************************************************************************)
Ctx == ctxs[Ev.c]
(* "Err() returns the recorded error": the FIRST one.  The error value itself is not observable when it is recorded, *)
(* but its text identifies the kind of operation that produced it: a text that belongs to another kind of operation  *)
(* than the one that latched the context is not the first error.  (Texts the table does not know are not judged.)    *)
NaNTexts(op) == CASE op = "Ctx.Add" -> {"addition of infinities with opposite signs"}
                  [] op = "Ctx.Sub" -> {"subtraction of infinities with equal signs"}
                  [] op = "Ctx.Mul" -> {"multiplication of zero with infinity"}
                  [] op = "Ctx.Quo" -> {"division of zero by zero or infinity by infinity"}
                  [] op = "Ctx.FMA" -> {"multiplication of zero with infinity", "addition of infinities with opposite signs"}
                  [] op = "Ctx.Sqrt" -> {"square root of negative operand"}
                  [] op = "Ctx.NewFloat64" -> {"Decimal.SetFloat64(NaN)"}
                  [] OTHER -> {}
AllNaNTexts == UNION {NaNTexts(op) : op \in {"Ctx.Add", "Ctx.Sub", "Ctx.Mul", "Ctx.Quo", "Ctx.FMA", "Ctx.Sqrt", "Ctx.NewFloat64"}}
FirstErrOK(who, msg) == msg \in AllNaNTexts /\ NaNTexts(who) # {} => msg \in NaNTexts(who)
CtxObsOK(c) == Ev.ret.cprec = c.prec /\ Ev.ret.cmode = c.mode      \* the context's observable attributes

(* the register the operation writes, rewritten: operands that ARE the receiver see the applied receiver *)
CtxArg(r, zA) == IF r = Ev.z THEN zA ELSE Pre(r)

(* the property that owns the same operation outside a context: a wrong value through the wrapper contradicts it too *)
CtxHome == CASE Ev.op \in {"Ctx.Add", "Ctx.Sub", "Ctx.Mul", "Ctx.Quo", "Ctx.Set", "Ctx.Neg", "Ctx.Abs"} -> {"C01"}
             [] Ev.op = "Ctx.FMA" -> {"C03"}
             [] Ev.op = "Ctx.Sqrt" -> {"C05"}
             [] OTHER -> {}

(* a context operation with receiver Ev.z; mk(zA) is the Decimal-level outcome on the applied receiver zA *)
CtxStep(w, aliased, tag) ==
  LET c == Ctx
  IN /\ l' = l + 1
     /\ vres' = vres
     /\ regs' = Adopt
     /\ dgs' = Ev.dg
     /\ IF Skip THEN /\ bad' = bad \cup Tag(Common(Named), "") /\ ctxs' = ctxs /\ pool' = pool /\ cov' = Bump({"skipped"})
        ELSE IF c.err
        THEN \* latched: the operation is a no-op and returns its receiver
             /\ bad' = bad \cup Tag((IF Ev.out = "ok" /\ Ev.ret.same /\ CtxObsOK(c) THEN {} ELSE {<<l, "C19", "latched-ret">>})
                                    \cup (IF \A r \in Named : Canonical(Ev.post[r]) => Got(r) = regs[r] THEN {} ELSE {<<l, "C19", "latched-modified">>})
                                    \cup Common(Named), "")
             /\ ctxs' = ctxs /\ pool' = pool
             /\ cov' = Bump({Ev.op, Ev.op \o ":latched"})
        ELSE \* a NaN is caught (the call returns normally) and latched; value free when the receiver is an operand (documented caveat)
             LET w1 == IF aliased THEN [w EXCEPT !.free = w.free \cup {"value", "acc"}] ELSE [w EXCEPT !.pid = {"C19"} \cup CtxHome]
                 got == IF Ev.out = "ok" /\ w.out = "nan" THEN [w1 EXCEPT !.out = "ok", !.free = {"value", "acc"}] ELSE w1
             IN /\ bad' = bad \cup Tag({<<t[1], IF t[2] \in {"C09", "C10"} THEN "C19" ELSE t[2], t[3]>> : t \in MisZ(got)} \cup (IF Ev.out = "ok" /\ Ev.ret.same /\ CtxObsOK(c) THEN {} ELSE {<<l, "C19", "ret">>})
                                       \cup Common({Ev.z}), "")
                /\ ctxs' = [ctxs EXCEPT ![Ev.c].err = (w.out = "nan"), ![Ev.c].who = IF w.out = "nan" THEN Ev.op ELSE ""] /\ pool' = pool
                /\ cov' = Bump({Ev.op, Ev.op \o ":" \o tag, Ev.op \o (IF w.out = "nan" THEN ":nan" ELSE ":ok"), Ev.op \o (IF aliased THEN ":aliased" ELSE ":distinct")})

IsCtx(op) == IsEv("Ctx." \o op)
TCtxBin(op, F(_, _, _)) ==
  /\ IsCtx(op)
  /\ LET zA == CtxApply(Ctx, Pre(Ev.z))
     IN CtxStep(F(zA, CtxArg(Ev.x, zA), CtxArg(Ev.y, zA)), Ev.z \in {Ev.x, Ev.y}, "bin")
TCtxAdd == TCtxBin("Add", OpAdd)
TCtxSub == TCtxBin("Sub", OpSub)
TCtxMul == TCtxBin("Mul", OpMul)
TCtxQuo == TCtxBin("Quo", OpQuo)
TCtxFMA ==
  /\ IsCtx("FMA")
  /\ LET zA == CtxApply(Ctx, Pre(Ev.z))
     IN CtxStep(OpFMA(zA, CtxArg(Ev.x, zA), CtxArg(Ev.y, zA), CtxArg(Ev.u, zA)), Ev.z \in {Ev.x, Ev.y, Ev.u}, "fma")
TCtxUn(op, F(_, _)) ==
  /\ IsCtx(op)
  /\ LET zA == CtxApply(Ctx, Pre(Ev.z)) IN CtxStep(F(zA, CtxArg(Ev.x, zA)), Ev.z = Ev.x, "un")
TCtxSqrt == TCtxUn("Sqrt", OpSqrt)
TCtxNeg == TCtxUn("Neg", OpNeg)
TCtxAbs == TCtxUn("Abs", OpAbs)
(* Set: apply(z.Copy(x)): x's value rounded to the context *)
TCtxSet ==
  /\ IsCtx("Set")
  /\ LET d == CtxSet(Ctx, Pre(Ev.x)) IN CtxStep(Outcome("ok", d, {}, {"C19"}), FALSE, "set")

(* operations on the context itself *)
CtxSelf(c1, ok, tag) ==
  /\ l' = l + 1 /\ vres' = vres /\ regs' = Adopt /\ dgs' = Ev.dg
  /\ ctxs' = [k \in DOMAIN ctxs \cup {Ev.c} |-> IF k = Ev.c THEN c1 ELSE ctxs[k]] /\ pool' = pool
  /\ bad' = bad \cup Tag((IF Ev.out = "ok" /\ ok /\ Ev.ret.cprec = c1.prec /\ Ev.ret.cmode = c1.mode THEN {} ELSE {<<l, "C19", "ctx">>}) \cup Common({}), "")
  /\ cov' = Bump({Ev.op} \cup tag)
TCtxNew == IsCtx("New") /\ CtxSelf(CtxRec(Ev.p, Ev.m), TRUE, {})
TCtxSetPrec == IsCtx("SetPrec") /\ CtxSelf([Ctx EXCEPT !.prec = CtxInit(Ev.p, 0).prec], TRUE, {})
TCtxSetMode == IsCtx("SetMode") /\ CtxSelf([Ctx EXCEPT !.mode = Ev.m], TRUE, {})
(* Err returns the recorded error exactly once and re-arms the context *)
TCtxErr == IsCtx("Err") /\ CtxSelf([Ctx EXCEPT !.err = FALSE, !.who = ""], Ev.ret.err = Ctx.err /\ (Ctx.err => Ev.ret.isnan /\ FirstErrOK(Ctx.who, Ev.ret.msg)),
                                   {"Ctx.Err:" \o ToString(Ctx.err)})

(* factories: c.New().SetX(...) - not affected by the latch *)
CtxFactory(w) ==
  /\ l' = l + 1 /\ vres' = vres /\ regs' = Adopt /\ dgs' = Ev.dg /\ ctxs' = ctxs /\ pool' = pool
  /\ bad' = bad \cup Tag(MisZ([w EXCEPT !.pid = {"C19"}]) \cup Common({Ev.z}), "")
  /\ cov' = Bump({Ev.op})
TCtxNewDec == IsCtx("NewDec") /\ CtxFactory(Outcome("ok", CtxNew(Ctx), {}, {"C19"}))
TCtxNewInt64 == IsCtx("NewInt64") /\ LET v == IFromStr(Ev.i) IN CtxFactory(OpSetInt64(CtxNew(Ctx), v.neg, v.mag))
TCtxNewUint64 == IsCtx("NewUint64") /\ CtxFactory(OpSetUint64(CtxNew(Ctx), FromStr(Ev.i)))
TCtxNewInt == IsCtx("NewInt") /\ LET v == IFromStr(Ev.i) IN CtxFactory(OpSetInt(CtxNew(Ctx), v.neg, v.mag, Ctx.prec))
TCtxNewRat ==
  /\ IsCtx("NewRat")
  /\ LET n == IFromStr(Ev.num)  d == FromStr(Ev.den)  qr == DivMod(n.mag, d)
     IN CtxFactory(IF qr[2] = Zero THEN OpSetInt(CtxNew(Ctx), n.neg, qr[1], Ctx.prec) ELSE OpSetRat(CtxNew(Ctx), n.neg, n.mag, d, Ctx.prec))
(* the conversions behind a factory are those of C15 / C12 on the fresh Decimal c.New() *)
(* NewFloat64(NaN) is the one factory call that "would produce a NaN": no panic, the context records the ErrNaN   *)
(* (the first one wins), the returned Decimal is valid (the context's precision and mode) and its value undefined *)
TCtxNewFloat64 ==
  /\ l <= Len(T) /\ Ev.op = "Ctx.NewFloat64" /\ Ev.out # "panic"
  /\ LET b == DecodeF64(FromStr(Ev.bits))
     IN IF b.k = "nan"
        THEN /\ l' = l + 1 /\ vres' = vres /\ regs' = Adopt /\ dgs' = Ev.dg /\ pool' = pool
             /\ ctxs' = IF Ctx.err THEN ctxs ELSE [ctxs EXCEPT ![Ev.c].err = TRUE, ![Ev.c].who = Ev.op]          \* the first error wins
             /\ bad' = bad \cup Tag((IF Ev.out = "ok" THEN MisZ(Outcome("ok", CtxNew(Ctx), {"value", "acc"}, {"C19"})) ELSE {<<l, "C19", "nan-not-caught">>})
                                    \cup Common({Ev.z}), "")
             /\ cov' = Bump({"Ctx.NewFloat64:nan"})
        ELSE SetBinStepZ(CtxNew(Ctx), b, 17, 1, "Ctx.NewFloat64")
TCtxNewFloat == IsCtx("NewFloat") /\ SetBinStepZ(CtxNew(Ctx), BinOfEv, 0, 64, "Ctx.NewFloat")
TCtxNewString == IsCtx("NewString") /\ ParseStepZ(CtxNew(Ctx), ParseLit(Chars(Ev.s), 0), Ev.ret.ok /\ ~Ev.ret.nilres, FALSE)
TCtxParseDecimal == IsCtx("ParseDecimal") /\ ParseStepZ(CtxNew(Ctx), ParseLit(Chars(Ev.s), Ev.base), Ev.ret.ok /\ ~Ev.ret.nilres, TRUE)
(* a panic that is not an ErrNaN (nil operand) must propagate out of the context and must not be latched *)
TCtxNil ==
  /\ l <= Len(T) /\ Ev.op = "Ctx.AddNilY"
  /\ l' = l + 1 /\ vres' = vres /\ regs' = Adopt /\ dgs' = Ev.dg
  /\ ctxs' = ctxs /\ pool' = pool
  /\ bad' = bad \cup Tag(IF Ctx.err THEN (IF Ev.out = "ok" THEN {} ELSE {<<l, "C19", "latched-ret">>})
                          ELSE (IF Ev.out = "panic" THEN {} ELSE {<<l, "C19", "swallowed-panic">>}), "")
  /\ cov' = Bump({"Ctx.AddNilY:" \o Ev.out})
CtxNext == TCtxAdd \/ TCtxSub \/ TCtxMul \/ TCtxQuo \/ TCtxFMA \/ TCtxSqrt \/ TCtxNeg \/ TCtxAbs \/ TCtxSet \/ TCtxNew \/ TCtxSetPrec
           \/ TCtxSetMode \/ TCtxErr \/ TCtxNewDec \/ TCtxNewInt64 \/ TCtxNewUint64 \/ TCtxNewInt \/ TCtxNewRat \/ TCtxNil
           \/ TCtxNewFloat64 \/ TCtxNewFloat \/ TCtxNewString \/ TCtxParseDecimal

TSetMantExp == IsEv("SetMantExp") /\ Step(OpSetMantExp(Pre(Ev.z), Pre(Ev.x), IFromStr(Ev.e)), {})
TMantExp ==
  /\ IsEv("MantExp")
  /\ IF Ev.z = "nil"
     THEN Observe(IFromStr(Ev.ret.exp) = MantExpRet(Pre(Ev.x)), "C20", {})
     ELSE StepX(OpMantExp(Pre(Ev.z), Pre(Ev.x)), {},
                IF Ev.out = "ok" /\ IFromStr(Ev.ret.exp) # MantExpRet(Pre(Ev.x)) THEN {<<l, "C20", "ret">>} ELSE {})

TSetBitsExp ==
  /\ IsEv("SetBitsExp")
  /\ LET z == Pre(Ev.z)
         ws == [i \in 1..Len(Ev.words) |-> FromStr(Ev.words[i])]
         pobs == Ev.post[Ev.z].prec
         w == OpSetBitsExp(z, ws, IFromStr(Ev.e), DW, pobs)
         g == Got(Ev.z)
         \* precision-0 receiver: whatever precision results, the slice must be stored without rounding
         extra == IF z.prec = 0 /\ Ev.out = "ok" /\ g.form = "finite" /\ (g.acc # Exact \/ g.prec < 1) THEN {<<l, "C20", "prec0-rounded">>} ELSE {}
     IN StepX(w, RoundTags(w) \cup {"SetBitsExp:len" \o (IF Len(ws) = 0 THEN "0" ELSE IF Len(ws) = 1 THEN "1" ELSE "n"),
                                   "SetBitsExp:prec" \o (IF z.prec = 0 THEN "0" ELSE "n")}, extra)
TSetBitsExpSelf ==
  /\ IsEv("SetBitsExpSelf")
  /\ LET w == OpSetBitsExpSelf(Pre(Ev.z), IFromStr(Ev.e), Ev.post[Ev.z].prec) IN Step(w, RoundTags(w))
(* BitsExp: the returned pair denotes exactly the magnitude: 0.words * 10^exp *)
TBitsExp ==
  /\ IsEv("BitsExp")
  /\ LET x == Pre(Ev.x)
         ws == [i \in 1..Len(Ev.ret.words) |-> FromStr(Ev.ret.words[i])]
         N == ConcatWords(ws, DW)
     IN Observe(IF x.form = "finite"
                THEN /\ N # Zero /\ StripTZ(N) = x.dig
                     /\ IAddInt(IFromInt(Ev.ret.exp), Len(N) - DW * Len(ws)) = x.exp
                ELSE Len(ws) = 0, "C20", {"BitsExp:" \o x.form})

TCmp == IsEv("Cmp") /\ Observe(Ev.ret.v = CmpVal(Pre(Ev.x), Pre(Ev.y)), "C16", {"Cmp:" \o ToString(CmpVal(Pre(Ev.x), Pre(Ev.y)))})
TPreds ==
  /\ IsEv("Preds")
  /\ LET x == Pre(Ev.x)  r == Ev.ret
     IN Observe(/\ r.sign = (IF x.form = "zero" THEN 0 ELSE IF x.neg THEN -1 ELSE 1)
                /\ r.signbit = x.neg /\ r.isinf = (x.form = "inf") /\ r.iszero = (x.form = "zero")
                /\ r.prec = x.prec /\ r.mode = x.mode /\ r.acc = x.acc, "C16", {})
TPreds14 ==
  /\ IsEv("IsInt")
  /\ LET x == Pre(Ev.x) IN Observe(Ev.ret.isint = IsInteger(x) /\ Ev.ret.minprec = MinPrecOf(x), "C14", {"IsInt:" \o ToString(IsInteger(x))})

CoreNext == TReset \/ TPanic \/ TLoad \/ TAdd \/ TSub \/ TMul \/ TQuo \/ TFMA \/ TSqrt \/ TNeg \/ TAbs \/ TSet \/ TCopy \/ TSetPrec \/ TSetPrecMax \/ TSetMode
            \/ TSetInf \/ TNew \/ TSetInt64 \/ TSetUint64 \/ TNewDecimal \/ TSetInt \/ TSetRat \/ TInt64 \/ TUint64 \/ TInt \/ TRat \/ TPreds14 \/ TSetFloat64 \/ TSetFloat \/ TFloat64 \/ TFloat32 \/ TFloat \/ TGobEncode \/ TGobDecode \/ TGobMutate \/ TGobRoundTrip \/ TGobStream \/ TSetMantExp \/ TMantExp \/ TSetBitsExp \/ TSetBitsExpSelf \/ TBitsExp \/ TCmp \/ TPreds

TraceInit == l = 1 /\ regs = <<>> /\ dgs = <<>> /\ bad = {} /\ cov = <<>> /\ vres = <<>> /\ ctxs = <<>> /\ pool = <<>>
TextNext == TText \/ TAppend \/ TString \/ TMarshalText \/ TMarshalJSON \/ TFormat \/ TParse \/ TSetString \/ TUnmarshalText
            \/ TUnmarshalJSON \/ TParseDecimal \/ TScan \/ TTextParse
TraceNext == CoreNext \/ CtxNext \/ TextNext \/ NatNext
TraceSpec == TraceInit /\ [][TraceNext]_vars

(* the verdict, printed once when the whole trace has been consumed *)
Done == l = Len(T) + 1 => PrintT("VERDICT " \o ToJson([n |-> Len(T), bad |-> bad, cov |-> cov]))
Consumed == TLCGet("stats").diameter - 1 = Len(T)
=============================================================================
