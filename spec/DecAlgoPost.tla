----------------------------- MODULE DecAlgoPost -----------------------------
(***************************************************************************)
(* Long multiplication, squaring and division (property C06), declarative: *)
(* the natural-number identities that must hold whatever algorithm and     *)
(* whatever tuning thresholds were used, plus the regime classification    *)
(* (which code path a call takes, as a function of the operand lengths and *)
(* the thresholds: lengths/thresholds are TLC integers).                   *)
(***************************************************************************)
EXTENDS DecKernels

NVal(ws) == ConcatWords(ws, KW)
NNormal(ws) == /\ \A i \in 1..Len(ws) : Lt(ws[i], KB)
               /\ (Len(ws) > 0 => ws[Len(ws)] # Zero)                 \* no leading zero word
NNormIn(ws) == LET v == NVal(ws) IN (Len(v) + KW - 1) \div KW          \* length of ws after norm()

MulPost(x, y, z) == NNormal(z) /\ NVal(z) = Mul(NVal(x), NVal(y))
SqrPost(x, z)    == NNormal(z) /\ NVal(z) = Mul(NVal(x), NVal(x))
DivPost(u, v, q, r) == /\ NNormal(q) /\ NNormal(r)
                       /\ Lt(NVal(r), NVal(v))
                       /\ Add(Mul(NVal(q), NVal(v)), NVal(r)) = NVal(u)

RECURSIVE KaratsubaLen(_, _)
KaratsubaLen(n, thr) == IF n > thr THEN 2 * KaratsubaLen(n \div 2, thr) ELSE n      \* as stdlib.go (shift back)

(* the code path of dec.mul for normalised operand lengths m, n and threshold K *)
MulRegime(m0, n0, K) ==
  LET m == IF m0 >= n0 THEN m0 ELSE n0
      n == IF m0 >= n0 THEN n0 ELSE m0
  IN IF n = 0 THEN "zero" ELSE IF n = 1 THEN "mulAddWW" ELSE IF n < K THEN "basic"
     ELSE LET k == KaratsubaLen(n, K) IN IF k < n \/ m # n THEN "karatsuba+unbalanced" ELSE "karatsuba"
SqrRegime(n, BS, KS) ==
  IF n = 0 THEN "zero" ELSE IF n = 1 THEN "word" ELSE IF n < BS THEN "basicMul" ELSE IF n < KS THEN "basicSqr"
  ELSE IF KaratsubaLen(n, KS) < n THEN "karatsubaSqr+tail" ELSE "karatsubaSqr"
DivRegime(u, v, rec) ==
  IF Lt(NVal(u), NVal(v)) THEN "small" ELSE IF NNormIn(v) = 1 THEN "divW" ELSE IF NNormIn(v) < rec THEN "divBasic" ELSE "divRecursive"
=============================================================================
