----------------------------- MODULE DecContext -----------------------------
(***************************************************************************)
(* package context (property C19): a Context is [prec, mode, err].         *)
(* err is the latch: it is NOT observable through the API except by Err(), *)
(* which clears it - the trace specification infers it.                    *)
(*                                                                         *)
(* Every operation  c.Op(z, args)  is, when the latch is clear,            *)
(*    apply(z) ; z.Op(args)                                                *)
(* where apply sets z's mode to the context's and, if the precisions       *)
(* differ, z.SetPrec(c.prec) (which rounds z's OLD value: the documented   *)
(* caveat when z is also an operand).  When the latch is set the operation *)
(* does nothing at all.                                                    *)
(***************************************************************************)
EXTENDS DecGob

CtxInit(p, m) == [prec |-> IF p = 0 THEN DefaultPrec ELSE MinI(p, MaxPrec), mode |-> m, err |-> FALSE]

(* c.apply(z) *)
CtxApply(c, z) ==
  LET z1 == OpSetMode(z, c.mode).d
  IN IF z1.prec # c.prec THEN OpSetPrec(z1, c.prec).d ELSE z1

(* c.Set(z, x) = apply(z.Copy(x)) *)
CtxSet(c, x) == CtxApply(c, x)

(* c.New() *)
CtxNew(c) == MkDec("zero", FALSE, Zero, IZero, c.prec, c.mode, Exact)
=============================================================================
